package main

import (
	"crypto/sha256"
	"encoding/hex"
	"bytes"
	"context"
	"fmt"
	"os"
	"os/exec"
	"path/filepath"
	"sort"
	"strings"
	"sync"
	"time"
)

var noPrune = os.Getenv("GOVC_NOPRUNE") != ""

type Verdict struct {
	Obl     *Obl
	Status  string // proved, refuted, unknown
	Solver  string
	Time    float64
	Model   map[string]string
	Detail  string
	Script  string
	Trivial bool
	Cached  bool
}

const preamble = `(set-option :produce-models true)
(set-logic ALL)
(define-sort Ref () Int)
(define-sort Str () Int)
(define-sort Iface () Int)
(define-fun null () Ref 0)
(define-fun inil () Iface 0)
(declare-fun itag (Iface) Int)
(assert (= (itag inil) 0))
(declare-fun at ((_ BitVec 64) (_ BitVec 64)) (_ BitVec 64))
(assert (forall ((o (_ BitVec 64)) (j (_ BitVec 64))) (! (= (at o j) (bvadd o j)) :pattern ((at o j)))))
(declare-fun strlen (Str) (_ BitVec 64))
(declare-fun strbyte (Str (_ BitVec 64)) (_ BitVec 8))
(assert (forall ((s Str)) (! (bvult (strlen s) (_ bv140737488355328 64)) :pattern ((strlen s)))))
`

// symbolsOf extracts identifier-like tokens of an SMT-LIB fragment.
func symbolsOf(t string) []string {
	var out []string
	i := 0
	for i < len(t) {
		ch := t[i]
		if ch == '_' || ch >= 'a' && ch <= 'z' || ch >= 'A' && ch <= 'Z' {
			j := i + 1
			for j < len(t) {
				c2 := t[j]
				if c2 == '_' || c2 == '!' || c2 == '.' || c2 >= 'a' && c2 <= 'z' || c2 >= 'A' && c2 <= 'Z' || c2 >= '0' && c2 <= '9' {
					j++
				} else {
					break
				}
			}
			out = append(out, t[i:j])
			i = j
			continue
		}
		i++
	}
	return out
}

func isHubSymbol(s string) bool {
	return strings.HasPrefix(s, "alloc!") || s == "null" || s == "inil" || s == "at" || s == "itag" || s == "strlen" || s == "strbyte" || s == "subtag"
}

// relevantItems: cone of influence of the goal.  An assertion is kept when it shares a declared, non-hub symbol
// with the goal (transitively); definitions are followed.  Dropping assumptions is sound.
func relevantItems(r *FuncResult, o *Obl) []bool {
	n := o.Prefix
	r.pruneMu.Lock()
	defer r.pruneMu.Unlock()
	if r.itemSyms == nil {
		r.declared = map[string]int{}
		r.itemSyms = make([][]string, len(r.Items))
		for i, it := range r.Items {
			if it.Name != "" && (it.Kind == "decl" || it.Kind == "def" || it.Kind == "declfun") {
				r.declared[it.Name] = i
			}
		}
		for i, it := range r.Items {
			seen := map[string]bool{}
			for _, sym := range symbolsOf(it.Body) {
				if _, ok := r.declared[sym]; ok && !seen[sym] && !isHubSymbol(sym) {
					seen[sym] = true
					r.itemSyms[i] = append(r.itemSyms[i], sym)
				}
			}
		}
		r.symUsers = map[string][]int{}
		for i, it := range r.Items {
			if it.Kind == "assert" || it.Kind == "raw" {
				for _, sym := range r.itemSyms[i] {
					r.symUsers[sym] = append(r.symUsers[sym], i)
				}
			}
		}
	}
	keep := make([]bool, n)
	for i := 0; i < n; i++ {
		// assertions over hub symbols only (allocation monotonicity, constants) are always kept
		if (r.Items[i].Kind == "assert" || r.Items[i].Kind == "raw") &&
			(len(r.itemSyms[i]) == 0 || strings.Contains(r.Items[i].Body, ":pattern ((select alloc!")) {
			keep[i] = true
		}
	}
	// frame obligations are about one component: quantified facts that do not mention a version of that
	// component cannot contribute (its versions are store chains / frame-constrained symbols of that component)
	framePrefix := ""
	if o.Kind == "frame" {
		if a := strings.Index(o.Name, "frame{"); a >= 0 {
			if b := strings.LastIndex(o.Name, "}"); b > a {
				framePrefix = sanitize(o.Name[a+6:b]) + "!"
			}
		}
	}
	skip := func(i int) bool {
		if framePrefix == "" || r.Items[i].Kind != "assert" || len(r.itemSyms[i]) <= 1 {
			return false // (single-symbol facts such as length bounds are cheap and needed for index arithmetic)
		}
		body := r.Items[i].Body
		if !strings.Contains(body, "(forall ") && !strings.Contains(body, "(exists ") {
			return false
		}
		return !strings.Contains(body, framePrefix) && !strings.Contains(body, "alloc!")
	}
	rel := map[string]bool{}
	var work []string
	add := func(sym string) {
		if !rel[sym] {
			rel[sym] = true
			work = append(work, sym)
		}
	}
	for _, sym := range symbolsOf(o.Goal) {
		if _, ok := r.declared[sym]; ok {
			add(sym)
		}
	}
	for len(work) > 0 {
		sym := work[len(work)-1]
		work = work[:len(work)-1]
		if isHubSymbol(sym) {
			continue
		}
		if di, ok := r.declared[sym]; ok && di < n {
			keep[di] = true
			if r.Items[di].Kind == "def" {
				for _, s2 := range r.itemSyms[di] {
					add(s2)
				}
				// hub symbols inside definitions still need their declarations
				for _, s2 := range symbolsOf(r.Items[di].Body) {
					if isHubSymbol(s2) {
						if dj, ok := r.declared[s2]; ok && dj < n {
							keep[dj] = true
						}
					}
				}
			}
		}
		for _, ai := range r.symUsers[sym] {
			if ai < n && !keep[ai] && !skip(ai) {
				keep[ai] = true
				for _, s2 := range r.itemSyms[ai] {
					add(s2)
				}
			}
		}
	}
	// declarations of everything mentioned by kept items (including hub symbols)
	for i := 0; i < n; i++ {
		if !keep[i] {
			continue
		}
		for _, sym := range symbolsOf(r.Items[i].Body) {
			if dj, ok := r.declared[sym]; ok && dj < n {
				keep[dj] = true
			}
		}
	}
	for _, sym := range symbolsOf(o.Goal) {
		if dj, ok := r.declared[sym]; ok && dj < n {
			keep[dj] = true
		}
	}
	// closure for declarations pulled in late (definitions referencing other definitions)
	changed := true
	for changed {
		changed = false
		for i := 0; i < n; i++ {
			if keep[i] && r.Items[i].Kind == "def" {
				for _, sym := range symbolsOf(r.Items[i].Body) {
					if dj, ok := r.declared[sym]; ok && dj < n && !keep[dj] {
						keep[dj] = true
						changed = true
					}
				}
			}
		}
	}
	// raw items (sort / datatype declarations, axioms about declared functions) are always kept when they declare something
	for i := 0; i < n; i++ {
		if r.Items[i].Kind == "raw" && (strings.Contains(r.Items[i].Body, "declare-") || strings.Contains(r.Items[i].Body, "define-")) {
			keep[i] = true
		}
	}
	return keep
}

func buildScript(r *FuncResult, o *Obl) string { return buildScriptMode(r, o, false) }

// groundPreamble: the preamble with `at` defined instead of axiomatised (no quantifier left).
var groundPreamble = strings.Replace(strings.Replace(preamble,
	"(declare-fun at ((_ BitVec 64) (_ BitVec 64)) (_ BitVec 64))",
	"(define-fun at ((o (_ BitVec 64)) (j (_ BitVec 64))) (_ BitVec 64) (bvadd o j))", 1),
	"(assert (forall ((o (_ BitVec 64)) (j (_ BitVec 64))) (! (= (at o j) (bvadd o j)) :pattern ((at o j)))))", "", 1)

// buildScriptMode: with ground set, every quantified assumption is left out (a sound weakening of the context
// that decides most safety and call-site obligations in milliseconds).
func buildScriptMode(r *FuncResult, o *Obl, ground bool) string {
	var b strings.Builder
	if ground {
		b.WriteString(groundPreamble)
	} else {
		b.WriteString(preamble)
	}
	var keep []bool
	if !noPrune {
		keep = relevantItems(r, o)
	}
	// string literals
	var lits []string
	for s, n := range r.StrLits {
		lits = append(lits, n)
		_ = s
	}
	sort.Strings(lits)
	for i, n := range lits {
		if n == "strlit!empty" {
			fmt.Fprintf(&b, "(define-fun %s () Str 0)\n", n)
			continue
		}
		fmt.Fprintf(&b, "(define-fun %s () Str %d)\n", n, i+1)
	}
	for s, n := range r.StrLits {
		fmt.Fprintf(&b, "(assert (= (strlen %s) (_ bv%d 64)))\n", n, len(s))
	}
	for idx, it := range r.Items[:o.Prefix] {
		if keep != nil && !keep[idx] {
			continue
		}
		switch it.Kind {
		case "decl":
			fmt.Fprintf(&b, "(declare-const %s %s)\n", it.Name, it.Sort)
		case "def":
			fmt.Fprintf(&b, "(define-fun %s () %s %s)\n", it.Name, it.Sort, it.Body)
		case "assert":
			if ground && (strings.Contains(it.Body, "(forall ") || strings.Contains(it.Body, "(exists ")) {
				continue
			}
			fmt.Fprintf(&b, "(assert %s)\n", it.Body)
		case "declfun":
			fmt.Fprintf(&b, "(declare-fun %s (%s) %s)\n", it.Name, it.Args, it.Sort)
		case "raw":
			if ground && (strings.Contains(it.Body, "(forall ") || strings.Contains(it.Body, "(exists ")) {
				continue
			}
			b.WriteString(it.Body)
			b.WriteString("\n")
		}
	}
	fmt.Fprintf(&b, "(assert (not %s))\n(check-sat)\n", o.Goal)
	if len(o.Inputs) > 0 {
		var ts []string
		for _, in := range o.Inputs {
			if in.Sort == SBool || strings.HasPrefix(in.Sort, "(_ BitVec") {
				ts = append(ts, in.Term)
			}
		}
		if len(ts) > 0 {
			fmt.Fprintf(&b, "(get-value (%s))\n", strings.Join(ts, " "))
		}
	}
	return b.String()
}

type solverSpec struct {
	name string
	args func(file string, timeout float64) []string
}

var solvers = []solverSpec{
	{"z3-new", func(f string, t float64) []string { return []string{"z3-new", fmt.Sprintf("-T:%d", int(t+0.999)), f} }},
	{"cvc5", func(f string, t float64) []string {
		return []string{"cvc5", fmt.Sprintf("--tlimit=%d", int(t*1000)), "--lang=smt2", f}
	}},
	{"cvc5-enum", func(f string, t float64) []string {
		return []string{"cvc5", fmt.Sprintf("--tlimit=%d", int(t*1000)), "--lang=smt2", "--enum-inst", f}
	}},
	{"z3-new-mbqi", func(f string, t float64) []string {
		return []string{"z3-new", fmt.Sprintf("-T:%d", int(t+0.999)), "smt.ematching=false", f}
	}},
	{"z3", func(f string, t float64) []string { return []string{"z3", fmt.Sprintf("-T:%d", int(t+0.999)), f} }},
}

type solverOut struct {
	solver string
	status string // unsat, sat, unknown, timeout, error
	out    string
	secs   float64
}

var procSem = make(chan struct{}, 16)

func runSolver(ctx context.Context, s solverSpec, file string, timeout float64) solverOut {
	select {
	case procSem <- struct{}{}:
	case <-ctx.Done():
		return solverOut{s.name, "cancelled", "", 0}
	}
	defer func() { <-procSem }()
	if ctx.Err() != nil {
		return solverOut{s.name, "cancelled", "", 0}
	}
	args := s.args(file, timeout)
	cctx, cancel := context.WithTimeout(ctx, time.Duration((timeout+2)*float64(time.Second)))
	defer cancel()
	cmd := exec.CommandContext(cctx, args[0], args[1:]...)
	var out bytes.Buffer
	cmd.Stdout = &out
	cmd.Stderr = &out
	t0 := time.Now()
	cmd.Run()
	secs := time.Since(t0).Seconds()
	text := out.String()
	status := "unknown"
	decided := false
	for _, line := range strings.Split(text, "\n") {
		line = strings.TrimSpace(line)
		if line == "unsat" || line == "sat" || line == "unknown" {
			status = line
			decided = true
			break
		}
		if strings.HasPrefix(line, "(error") {
			// an error before the verdict (parse/sort error) invalidates the run
			status = "error"
			decided = true
			break
		}
		if strings.Contains(line, "timeout") {
			status = "timeout"
			decided = true
			break
		}
	}
	if !decided && cctx.Err() != nil {
		status = "timeout"
	}
	return solverOut{s.name, status, text, secs}
}

// discharge runs the solvers on one obligation.
func discharge(r *FuncResult, o *Obl, dir string, timeout float64, thorough bool) *Verdict {
	v := &Verdict{Obl: o}
	if o.Goal == "true" && o.Expect != "sat" {
		v.Status, v.Solver, v.Trivial = "proved", "syntactic", true
		return v
	}
	script := buildScript(r, o)
	ckey := ""
	if cacheDir != "" && o.Expect != "sat" {
		ckey = scriptKey(script)
		if who, ok := cacheLookup(ckey); ok {
			v.Status, v.Solver, v.Cached = "proved", "cache:"+who, true
			return v
		}
	}
	defer func() {
		if ckey != "" && v.Status == "proved" && !v.Trivial {
			cacheStore(ckey, v.Solver)
		}
	}()
	file := filepath.Join(dir, sanitize(o.Name)+".smt2")
	if len(file) > 200 {
		file = filepath.Join(dir, fmt.Sprintf("o%x.smt2", hashStr(o.Name)))
	}
	if err := os.WriteFile(file, []byte(script), 0o644); err != nil {
		v.Status, v.Detail = "unknown", err.Error()
		return v
	}
	v.Script = file
	t0 := time.Now()
	defer func() { v.Time = time.Since(t0).Seconds() }()
	finish := func(so solverOut) bool {
		switch so.status {
		case "unsat":
			if o.Expect == "sat" {
				v.Status, v.Solver, v.Detail = "refuted", so.solver, "vacuous: the return point is unreachable under the assumptions"
			} else {
				v.Status, v.Solver = "proved", so.solver
			}
			return true
		case "sat":
			if o.Expect == "sat" {
				v.Status, v.Solver = "proved", so.solver
			} else {
				v.Status, v.Solver, v.Detail = "refuted", so.solver, so.out
				v.Model = parseModel(so.out, o)
			}
			return true
		}
		return false
	}
	// stage 0: quantifier-free weakening of the context
	if o.Expect != "sat" && os.Getenv("GOVC_NOGROUND") == "" && !strings.Contains(o.Goal, "(exists ") {
		gfile := strings.TrimSuffix(file, ".smt2") + ".ground.smt2"
		if err := os.WriteFile(gfile, []byte(buildScriptMode(r, o, true)), 0o644); err == nil {
			g := runSolver(context.Background(), solvers[0], gfile, 1.0)
			if g.status == "unsat" {
				v.Status, v.Solver = "proved", g.solver+"-ground"
				return v
			}
		}
	}
	// stage A: z3-new alone, short
	quick := 1.5
	if timeout < quick {
		quick = timeout
	}
	if o.Expect == "sat" && timeout > 3 {
		timeout = 3 // reachability covers are best-effort
	}
	so := runSolver(context.Background(), solvers[0], file, quick)
	if finish(so) {
		return v
	}
	details := []string{fmt.Sprintf("%s: %s (%.1fs)", so.solver, so.status, so.secs)}
	if so.status == "error" {
		details = append(details, firstLines(so.out, 3))
	}
	// stage B: race all
	ctx, cancel := context.WithCancel(context.Background())
	defer cancel()
	ch := make(chan solverOut, len(solvers))
	racers := solvers
	if o.Expect == "sat" {
		racers = solvers[:2]
	}
	for _, s := range racers {
		go func(s solverSpec) { ch <- runSolver(ctx, s, file, timeout) }(s)
	}
	for range racers {
		so := <-ch
		if finish(so) {
			return v
		}
		details = append(details, fmt.Sprintf("%s: %s (%.1fs)", so.solver, so.status, so.secs))
		if so.status == "error" {
			details = append(details, firstLines(so.out, 3))
		}
	}
	if o.Expect == "sat" {
		// reachability could not be shown (quantified context): not a failure, reported as undecided cover
		v.Status, v.Solver, v.Detail = "proved", "cover-undecided", strings.Join(details, "; ")
		return v
	}
	v.Status, v.Detail = "unknown", strings.Join(details, "; ")
	return v
}

func firstLines(s string, n int) string {
	ls := strings.Split(strings.TrimSpace(s), "\n")
	if len(ls) > n {
		ls = ls[:n]
	}
	return strings.Join(ls, " | ")
}

func hashStr(s string) uint64 {
	var h uint64 = 1469598103934665603
	for i := 0; i < len(s); i++ {
		h ^= uint64(s[i])
		h *= 1099511628211
	}
	return h
}

// parseModel extracts (get-value) pairs.
func parseModel(out string, o *Obl) map[string]string {
	m := map[string]string{}
	i := strings.Index(out, "((")
	if i < 0 {
		return m
	}
	text := out[i:]
	for _, in := range o.Inputs {
		k := strings.Index(text, "("+in.Term+" ")
		if k < 0 {
			continue
		}
		rest := text[k+len(in.Term)+2:]
		// value is up to matching paren
		depth := 0
		end := 0
		for j := 0; j < len(rest); j++ {
			if rest[j] == '(' {
				depth++
			} else if rest[j] == ')' {
				if depth == 0 {
					end = j
					break
				}
				depth--
			}
		}
		m[in.Name] = normBV(strings.TrimSpace(rest[:end]))
	}
	return m
}

// normBV renders #x.. / #b.. / (_ bvN w) uniformly as 0x...
func normBV(s string) string {
	if strings.HasPrefix(s, "#x") {
		return "0x" + s[2:]
	}
	if strings.HasPrefix(s, "#b") {
		var v uint64
		for _, c := range s[2:] {
			v = v<<1 | uint64(c-'0')
		}
		return fmt.Sprintf("0x%x", v)
	}
	var n, w uint64
	if _, err := fmt.Sscanf(s, "(_ bv%d %d)", &n, &w); err == nil {
		return fmt.Sprintf("0x%x", n)
	}
	return s
}

// dischargeAll runs all obligations of several functions on a worker pool.
// noRetry: obligations recorded as known findings are not retried (they are expected to stay undischarged)
var noRetry = map[string]bool{}

func dischargeAll(results []*FuncResult, dir string, timeout float64, thorough bool, workers int) []*Verdict {
	type job struct {
		r *FuncResult
		o *Obl
	}
	var jobs []job
	for _, r := range results {
		for _, o := range r.Obls {
			jobs = append(jobs, job{r, o})
		}
	}
	out := make([]*Verdict, len(jobs))
	var wg sync.WaitGroup
	sem := make(chan struct{}, workers)
	for i, j := range jobs {
		wg.Add(1)
		sem <- struct{}{}
		go func(i int, j job) {
			defer wg.Done()
			defer func() { <-sem }()
			out[i] = discharge(j.r, j.o, dir, timeout, thorough)
		}(i, j)
	}
	wg.Wait()
	// second chance: obligations left undecided (no counterexample) are retried with three times the budget and few
	// solvers at a time, so that a loaded machine does not turn a slow proof into an alarm
	if os.Getenv("GOVC_NORETRY") == "" {
		var retry []int
		for i, v := range out {
			if v != nil && v.Status == "unknown" && !noRetry[jobs[i].o.Name] {
				retry = append(retry, i)
			}
		}
		if len(retry) > 0 && len(retry) <= 60 {
			sem2 := make(chan struct{}, 3)
			for _, i := range retry {
				wg.Add(1)
				sem2 <- struct{}{}
				go func(i int) {
					defer wg.Done()
					defer func() { <-sem2 }()
					first := out[i]
					v := discharge(jobs[i].r, jobs[i].o, dir, 3*timeout, thorough)
					v.Time += first.Time
					if v.Status == "unknown" {
						v.Detail = first.Detail + " || retry: " + v.Detail
					} else {
						v.Solver += "+retry"
					}
					out[i] = v
				}(i)
			}
			wg.Wait()
		}
	}
	return out
}

// Verdict cache: an unsat verdict is a property of the SMT script alone, so it is remembered under the hash of the
// script's (sorted) lines.  Only "proved" is cached; a changed function body or contract changes the script.
var cacheDir = func() string {
	if d := os.Getenv("GOVC_CACHE"); d != "" {
		if d == "off" {
			return ""
		}
		return d
	}
	return "/verif/.cache"
}()

func scriptKey(script string) string {
	lines := strings.Split(script, "\n")
	sort.Strings(lines)
	h := sha256.New()
	h.Write([]byte(solverVersions))
	for _, l := range lines {
		h.Write([]byte(l))
		h.Write([]byte{10})
	}
	return hex.EncodeToString(h.Sum(nil))
}

const solverVersions = "z3-5.1.0 z3-4.8.12 cvc5-1.0"

func cacheLookup(key string) (string, bool) {
	b, err := os.ReadFile(filepath.Join(cacheDir, key[:2], key))
	if err != nil {
		return "", false
	}
	return strings.TrimSpace(string(b)), true
}

func cacheStore(key, solver string) {
	d := filepath.Join(cacheDir, key[:2])
	if os.MkdirAll(d, 0o755) != nil {
		return
	}
	tmp := filepath.Join(d, key+".tmp")
	if os.WriteFile(tmp, []byte(solver+"\n"), 0o644) == nil {
		os.Rename(tmp, filepath.Join(d, key))
	}
}
