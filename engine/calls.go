package main

import (
	"fmt"
	"go/constant"
	"go/token"
	"go/types"
	"os"
	"sort"
	"strings"

	"golang.org/x/tools/go/ssa"
)

// ---------------------------------------------------------------------------
// Calls

func (fr *Frame) call(instr ssa.Instruction, common *ssa.CallCommon, st *State, R string) Val {
	anns := fr.matchCallAnns(instr, common)
	if len(anns) == 0 {
		return fr.call1(instr, common, st, R)
	}
	var args []Val
	for _, a := range common.Args {
		args = append(args, fr.val(a))
	}
	var recv *Val
	if common.IsInvoke() {
		v := fr.val(common.Value)
		recv = &v
	} else if callee := common.StaticCallee(); callee != nil && callee.Signature.Recv() != nil && len(args) > 0 {
		recv = &args[0]
		args = args[1:]
	}
	pre := st.clone()
	// annotations are written in terms of the function under contract: its locals, its loops
	env := fr
	if fr.root != nil {
		env = fr.root
	}
	if env != fr {
		env.inner = fr
	}
	for _, a := range anns {
		if !a.After {
			env.applyCallAnn(a, recv, args, nil, pre, st, R)
		}
	}
	env.inner = nil
	rv := fr.call1(instr, common, st, R)
	if env != fr {
		env.inner = fr
	}
	for _, a := range anns {
		if a.After {
			env.applyCallAnn(a, recv, args, &rv, pre, st, R)
		}
	}
	env.inner = nil
	return rv
}

// callNames: the names under which a call site can be addressed by an `at call` annotation.
func (fr *Frame) callNames(common *ssa.CallCommon) []string {
	var names []string
	if common.IsInvoke() {
		names = append(names, fr.c.typeKey(common.Value.Type())+"."+common.Method.Name(), common.Method.Name(), fr.srcName(common.Value)+"."+common.Method.Name())
	} else if callee := common.StaticCallee(); callee != nil {
		k := fnKey(callee)
		names = append(names, k, callee.Name())
		if i := strings.Index(k, "."); i >= 0 {
			names = append(names, k[i+1:])
		}
	} else if b, ok := common.Value.(*ssa.Builtin); ok {
		names = append(names, b.Name())
	} else {
		names = append(names, fr.srcName(common.Value))
	}
	return names
}

// siteKey identifies a call site of the function under contract or of a contract-less function inlined into it.
func siteKey(path string, instr ssa.Instruction) string {
	return fmt.Sprintf("%s|%p", path, instr)
}

// inlinedWithoutContract: a call that the translation expands in place (a repository function with a body and no
// contract of its own).
func (fr *Frame) inlinedWithoutContract(common *ssa.CallCommon, stack []*ssa.Function) *ssa.Function {
	c := fr.c
	callee := common.StaticCallee()
	if callee == nil || callee.Blocks == nil {
		return nil
	}
	if fc := c.W.contracts[fnKey(callee)]; fc != nil && !fc.Flags["inline"] {
		return nil
	}
	if !(c.W.isRepoPkg(pkgOf(callee)) || c.W.inlinePkg[pkgPath(callee)] || c.inlineExtra[pkgPath(callee)]) {
		return nil
	}
	for _, f := range stack {
		if f == callee {
			return nil
		}
	}
	if len(stack) > maxInlineDepth {
		return nil
	}
	return callee
}

type callSite struct {
	key   string
	names []string
	text  string // source text of the call expression
	ext   string // source text of the helpers called in its argument list
}

// expandedSites: the call sites of fn in source order, with the call sites of every contract-less repository function
// it calls spliced in after the call (recursively) - the order in which the text would read had those functions been
// written out in place.  A refactoring that moves statements into a helper keeps the order, and the annotations.
func (fr *Frame) expandedSites(fn *ssa.Function, path string, stack []*ssa.Function) []callSite {
	var instrs []ssa.Instruction
	for _, b := range fn.Blocks {
		for _, ins := range b.Instrs {
			if _, ok := ins.(ssa.CallInstruction); ok {
				instrs = append(instrs, ins)
			}
		}
	}
	// order: by the closing parenthesis of the call expression, so that a call written inside the argument list of
	// another one (which runs first) also counts first - the order does not change when a sequence of statements is
	// turned into a helper call placed in an argument position
	rp := fr.c.W.callRparens(fn)
	key := func(ins ssa.Instruction) token.Pos {
		if r, ok := rp[ins.Pos()]; ok {
			return r
		}
		return ins.Pos()
	}
	sort.SliceStable(instrs, func(i, j int) bool { return key(instrs[i]) < key(instrs[j]) })
	var out []callSite
	for _, ins := range instrs {
		common := ins.(ssa.CallInstruction).Common()
		out = append(out, callSite{siteKey(path, ins), fr.callNames(common), fr.c.W.callText(fn, ins.Pos()), fr.c.W.callTextExt(fn, ins.Pos())})
		if _, isGo := ins.(*ssa.Go); isGo {
			continue
		}
		if callee := fr.inlinedWithoutContract(common, stack); callee != nil {
			out = append(out, fr.expandedSites(callee, path+fmt.Sprintf("/%p", ins), append(append([]*ssa.Function{}, stack...), callee))...)
		}
	}
	return out
}

// matchCallAnns returns the call-site annotations of the top-level contract that apply to this call.
// Ordinals (#n) count the matching call sites in source order (see expandedSites).
func (fr *Frame) matchCallAnns(instr ssa.Instruction, common *ssa.CallCommon) []*CallAnn {
	top := fr
	if fr.root != nil {
		top = fr.root
	}
	if !top.top || top.contract == nil || len(top.contract.Calls) == 0 {
		return nil
	}
	if top.callOrdinals == nil {
		top.callOrdinals = map[*CallAnn]map[string]int{}
		sites := top.expandedSites(top.fn, "", []*ssa.Function{top.fn})
		for _, a := range top.contract.Calls {
			m := map[string]int{}
			n := 0
			// a ~text selector looks at the call's own text first; only when no site of that name has the token itself are
			// the helpers called in the argument lists considered (an attribute literal moved into a constructor)
			direct := false
			if a.Text != "" {
				for _, s := range sites {
					if strings.Contains(s.text, a.Text) {
						for _, nm := range s.names {
							if nm == a.Callee {
								direct = true
							}
						}
					}
				}
			}
			for _, s := range sites {
				if a.Text != "" && !strings.Contains(s.text, a.Text) && (direct || !strings.Contains(s.ext, a.Text)) {
					continue
				}
				for _, nm := range s.names {
					if nm == a.Callee {
						n++
						m[s.key] = n
						break
					}
				}
			}
			top.callOrdinals[a] = m
			if os.Getenv("GOVC_DEBUGORD") != "" {
				// compare with the numbering over the function's own call sites only
				oldm := map[string]int{}
				n := 0
				for _, s := range sites {
					if strings.Contains(s.key, "/") {
						continue
					}
					for _, nm := range s.names {
						if nm == a.Callee {
							n++
							oldm[s.key] = n
							break
						}
					}
				}
				sel := func(mm map[string]int) string {
					var ks []string
					for k, o := range mm {
						if a.Ordinal == 0 || a.Ordinal == o {
							ks = append(ks, k)
						}
					}
					sort.Strings(ks)
					return strings.Join(ks, ",")
				}
				if sel(m) != sel(oldm) {
					fmt.Fprintf(os.Stderr, "ORDINAL-SHIFT %s: at call %s#%d binds to other sites when inlined helpers are counted\n", fnKey(top.fn), a.Callee, a.Ordinal)
				}
			}
		}
	}
	var out []*CallAnn
	key := siteKey(fr.path, instr)
	for _, a := range top.contract.Calls {
		ord, hit := top.callOrdinals[a][key]
		if !hit {
			continue
		}
		if a.Ordinal != 0 && a.Ordinal != ord {
			continue
		}
		a.matched = true
		out = append(out, a)
	}
	return out
}

func (fr *Frame) applyCallAnn(a *CallAnn, recv *Val, args []Val, ret *Val, pre, st *State, R string) {
	c := fr.c
	vars := map[string]Val{}
	for k, v := range fr.envVars {
		vars[k] = v
	}
	fr.bindLocals(vars, st, nil)
	// a call site inside a contract-less helper expanded in place: the helper's own locals (its parameters, the
	// variables of the statements that were moved into it) come first, the names of the function under contract after
	loopFr := fr
	if fr.inner != nil {
		iv := map[string]Val{}
		fr.inner.bindLocals(iv, st, nil)
		for k, v := range iv {
			vars[k] = v
		}
		loopFr = fr.inner
	}
	// inside a range loop over a slice: idx = index of the element being processed (= completed iterations)
	if loopFr.curBlock != nil {
		var best *ssa.Phi
		for _, b := range loopFr.fn.Blocks {
			if !(b == loopFr.curBlock || b.Dominates(loopFr.curBlock)) {
				continue
			}
			for _, ins := range b.Instrs {
				if phi, ok := ins.(*ssa.Phi); ok && phi.Comment == "rangeindex" {
					if _, have := loopFr.vals[phi]; have && (best == nil || best.Block().Dominates(b)) {
						best = phi
					}
				}
			}
		}
		if best != nil {
			if _, dup := vars["idx"]; !dup || loopFr != fr {
				vars["idx"] = Val{T: types.Typ[types.Int], L: []string{app("bvadd", loopFr.vals[best].L[0], bvU(1, 64))}}
			}
		}
	}
	if recv != nil {
		vars["recv"] = *recv
	}
	for i, v := range args {
		vars[fmt.Sprintf("arg%d", i)] = v
	}
	if ret != nil {
		if len(ret.Tup) > 0 {
			for i, v := range ret.Tup {
				vars[fmt.Sprintf("ret%d", i)] = v
			}
		} else if ret.T != nil {
			vars["ret0"] = *ret
		}
	}
	env := &Env{c: c, st: st, old: fr.entrySt, vars: vars, pkg: pkgOf(fr.fn), guard: R}
	if ret != nil {
		env.old = pre
	}
	// before(e) in a call-site annotation: the value at the head of the innermost enclosing loop, in this iteration
	if fr.curBlock != nil {
		var best *loopInfo
		for _, li := range fr.loops {
			if li.blocks[fr.curBlock] && li.hstate != nil && (best == nil || len(li.blocks) < len(best.blocks)) {
				best = li
			}
		}
		if best != nil {
			env.before = best.hstate
		}
	}
	for _, uf := range a.Unfolds {
		// unfold P(args): at this point the definition of this one instance is available (atom ==> body)
		call, ok := uf.E.(*ECall)
		if !ok {
			c.fail("unfold needs an opaque predicate application")
		}
		p, ok := c.W.pures[call.Fun]
		if !ok || !p.Opaque {
			c.fail("unfold: %s is not an opaque predicate", call.Fun)
		}
		atom := env.evalBool(uf.E)
		if c.top.Reveal == nil {
			c.top.Reveal = map[string]bool{}
		}
		was := c.top.Reveal[p.Name]
		c.top.Reveal[p.Name] = true
		full := env.evalBool(uf.E)
		c.top.Reveal[p.Name] = was
		c.assume(R, tImp(atom, full))
	}
	for _, fd := range a.Folds {
		// fold P(args): the definition of this one instance is proved here, then the atom is available
		call, ok := fd.E.(*ECall)
		if !ok {
			c.fail("fold needs an opaque predicate application")
		}
		p, ok := c.W.pures[call.Fun]
		if !ok || !p.Opaque {
			c.fail("fold: %s is not an opaque predicate", call.Fun)
		}
		if c.top.Reveal == nil {
			c.top.Reveal = map[string]bool{}
		}
		was := c.top.Reveal[p.Name]
		c.top.Reveal[p.Name] = true
		for k, cj := range c.splitGoal(env, fd.E) {
			nm := fmt.Sprintf("at{%s}.fold{%s}", a.Callee, p.Name)
			if cj.n > 1 {
				nm = fmt.Sprintf("%s.%d", nm, k+1)
			}
			c.oblige("assert", fr.oblName(nm), R, cj.t)
		}
		c.top.Reveal[p.Name] = was
		c.assume(R, env.evalBool(fd.E))
	}
	for i, rc := range a.Reached {
		// completeness of emission: whenever the enclosing loop iteration (or the function) starts and the condition
		// holds, control reaches this call - the code cannot skip it on a path the condition covers
		label := rc.Label
		if label == "" {
			label = fmt.Sprintf("reached%d", i+1)
		}
		base := fr.entryR
		if fr.curBlock != nil {
			var best *loopInfo
			for _, li := range fr.loops {
				if li.blocks[fr.curBlock] && li.headR != "" && (best == nil || len(li.blocks) < len(best.blocks)) {
					best = li
				}
			}
			if best != nil {
				// the guard under which the body of the iteration is entered: the header's successor inside the loop
				base = best.headR
				for _, sc := range best.header.Succs {
					if best.blocks[sc] && sc != best.header {
						if r, ok := fr.blockR[sc]; ok {
							base = r
						}
					}
				}
			}
		}
		if base == "" {
			base = "true"
		}
		c.oblige("reached", fr.oblName(fmt.Sprintf("at{%s}.%s", a.Callee, label)), tAnd(base, env.evalBool(rc.E)), R)
	}
	for i, as := range a.Asserts {
		label := as.Label
		if label == "" {
			label = fmt.Sprintf("assert%d", i+1)
		}
		for k, cj := range c.splitGoal(env, as.E) {
			nm := fmt.Sprintf("at{%s}.%s", a.Callee, label)
			if cj.n > 1 {
				nm = fmt.Sprintf("%s.%d", nm, k+1)
			}
			c.oblige("assert", fr.oblName(nm), R, cj.t)
		}
		// an explicit assertion is a lemma for what follows (its conjuncts were just required)
		c.assume(R, env.evalBool(as.E))
	}
	for _, as := range a.Assumes {
		c.assume(R, env.evalBool(as.E))
		c.note("assumption at call site %s in %s: %s", a.Callee, fr.fn.Name(), as.Text)
	}
	for _, g := range a.Ghosts {
		gd, ok := c.W.ghosts[g.Name]
		if !ok {
			c.fail("set: unknown ghost variable %s", g.Name)
		}
		rt := c.resolveType(env.pkg, gd.T)
		v := env.eval(g.E)
		if v.Const != nil {
			v = env.coerceConst(v, rt.Go)
		}
		c.compSort["G|"+g.Name] = c.sortOfRT(rt)
		st.heap["G|"+g.Name] = c.define("G_"+g.Name, c.sortOfRT(rt), v.L[0])
	}
}

func (fr *Frame) call1(instr ssa.Instruction, common *ssa.CallCommon, st *State, R string) Val {
	c := fr.c
	var args []Val
	for _, a := range common.Args {
		args = append(args, fr.val(a))
	}
	resT := common.Signature().Results()
	if common.IsInvoke() {
		recv := fr.val(common.Value)
		return fr.invoke(instr, common, recv, args, st, R)
	}
	if b, ok := common.Value.(*ssa.Builtin); ok {
		return fr.builtin(instr, b, common, args, st, R)
	}
	callee := common.StaticCallee()
	var free []Val
	if callee == nil {
		fv := fr.val(common.Value)
		if fv.Fn != nil {
			callee = fv.Fn
			free = fv.Bind
		}
	} else if mc, ok := common.Value.(*ssa.MakeClosure); ok {
		free = fr.val(mc).Bind
	}
	if callee == nil {
		// dynamic call through a function value: look for a funcfield contract
		if fa := fieldOfFuncValue(common.Value); fa != "" {
			if fc := c.W.contracts["funcfield."+fa]; fc != nil {
				return fr.contractCall(instr, fc, fa, nil, common.Signature(), args, st, R)
			}
		}
		c.note("dynamic call through function value assumed pure: %s in %s", fr.srcName(common.Value), fr.fn.Name())
		return c.freshResults("dyn", resT)
	}
	return fr.callStatic(instr, callee, free, args, st, R)
}

func fieldOfFuncValue(v ssa.Value) string {
	if u, ok := v.(*ssa.UnOp); ok {
		if fa, ok := u.X.(*ssa.FieldAddr); ok {
			S := derefT(fa.X.Type())
			if n, ok := S.(*types.Named); ok {
				return n.Obj().Pkg().Name() + "." + n.Obj().Name() + "." + S.Underlying().(*types.Struct).Field(fa.Field).Name()
			}
		}
	}
	return ""
}

func (c *Ctx) freshResults(prefix string, res *types.Tuple) Val {
	switch res.Len() {
	case 0:
		return Val{}
	case 1:
		return c.freshVal(prefix, res.At(0).Type())
	}
	out := Val{T: res}
	for i := 0; i < res.Len(); i++ {
		out.Tup = append(out.Tup, c.freshVal(fmt.Sprintf("%s%d", prefix, i), res.At(i).Type()))
	}
	return out
}

// detResults: results of a deterministic extern as uninterpreted functions of the argument leaves.
func (c *Ctx) detResults(key string, res *types.Tuple, args []Val) []Val {
	var sorts, terms []string
	for _, a := range args {
		if a.P != nil {
			c.fail("Go-side pointer passed to deterministic extern %s", key)
		}
		if a.T == nil {
			continue
		}
		for i, l := range c.leaves(a.T) {
			sorts = append(sorts, l.Sort)
			terms = append(terms, a.L[i])
		}
	}
	var out []Val
	underBinder := false
	for i := 0; i < res.Len(); i++ {
		T := res.At(i).Type()
		v := Val{T: T}
		for k, l := range c.leaves(T) {
			fn := fmt.Sprintf("det_%s_%d_%d", sanitize(key), i, k)
			c.declFun(fn, strings.Join(sorts, " "), l.Sort)
			var t string
			if len(terms) == 0 {
				t = fn
			} else {
				t = app(fn, terms...)
			}
			bound := strings.Contains(t, "!q") || strings.Contains(t, "@P")
			d := t
			if !bound {
				// (under a binder the application is used as it is: a definition would capture the bound variable)
				d = c.define("det", l.Sort, t)
			}
			if l.Sort == SRef {
				if a0, ok := c.initial["alloc"]; ok && !bound {
					c.assume("true", tSel(a0, d)) // canonical objects of deterministic externs exist throughout
				}
			}
			if bound {
				underBinder = true
			}
			v.L = append(v.L, d)
		}
		if !underBinder {
			c.assumeValid("true", v)
		}
		out = append(out, v)
	}
	return out
}

func packResults(rv []Val, res *types.Tuple) Val {
	switch len(rv) {
	case 0:
		return Val{}
	case 1:
		return rv[0]
	}
	return Val{T: res, Tup: rv}
}

func (fr *Frame) callStatic(instr ssa.Instruction, callee *ssa.Function, free []Val, args []Val, st *State, R string) Val {
	c := fr.c
	resT := callee.Signature.Results()
	key := fnKey(callee)
	// pure logging / formatting
	if pkg := callee.Pkg; pkg != nil {
		switch pkg.Pkg.Path() {
		case "github.com/sirupsen/logrus":
			rv := c.freshResults("log", resT)
			if resT.Len() == 1 {
				if _, ok := resT.At(0).Type().Underlying().(*types.Pointer); ok {
					c.assume(R, tNot(tEq(rv.L[0], "null")))
				}
			}
			return rv
		}
	}
	if key == "fmt.Sprintf" || key == "fmt.Sprint" {
		return fr.sprintf(instr, key, args, st, R)
	}
	if fc := c.W.contracts[key]; fc != nil && !(fr.top && callee == fr.fn) && !fc.Flags["inline"] {
		return fr.contractCall(instr, fc, key, callee, callee.Signature, args, st, R)
	}
	inlinable := callee.Blocks != nil && (c.W.isRepoPkg(pkgOf(callee)) || c.W.inlinePkg[pkgPath(callee)] || c.inlineExtra[pkgPath(callee)])
	if inlinable {
		for _, f := range fr.stack {
			if f == callee {
				inlinable = false
				c.note("recursive call to %s not inlined (results havocked)", key)
			}
		}
		if fr.depth >= maxInlineDepth {
			inlinable = false
			c.note("inline depth limit reached at %s (results havocked)", key)
		}
	}
	if inlinable {
		sub := &Frame{c: c, fn: callee, depth: fr.depth + 1, prefix: fr.prefix + callee.Name() + ".", free: free,
			stack: append(append([]*ssa.Function{}, fr.stack...), fr.fn)}
		sub.root = fr.root
		if sub.root == nil {
			sub.root = fr
		}
		sub.path = fr.path + fmt.Sprintf("/%p", instr)
		sub.posPath = fr.posPath + fmt.Sprintf("/%d", int(instr.Pos()))
		// how the caller's text names what the helper's parameters stand for (loop descriptors of an extracted loop)
		sub.argSrc = map[string]string{}
		if ci, ok := instr.(ssa.CallInstruction); ok {
			for i, prm := range callee.Params {
				if i < len(ci.Common().Args) {
					n := fr.srcName(ci.Common().Args[i])
					if fr.argSrc != nil {
						n = substIdents(n, fr.argSrc)
					}
					sub.argSrc[prm.Name()] = n
				}
			}
		}
		savedPos := c.curPos
		rv, out, Rret := c.execFunc(sub, args, st.clone(), R)
		c.curPos = savedPos
		// the callee's exit state replaces the caller's state (calls are not branching points); the code after the
		// call runs only if the callee returned (partial correctness): what was established on the callee's paths to
		// its return - e.g. the invariant of a loop it contains, at the loop's exit - is available afterwards
		if Rret != "false" && Rret != "" {
			c.assume(R, Rret)
		}
		*st = *out
		if rv == nil && resT.Len() > 0 {
			// callee never returns normally
			return c.freshResults("noret", resT)
		}
		return packResults(rv, resT)
	}
	if c.W.isDeterministic(callee) {
		if r := callee.Signature.Recv(); r != nil && len(args) > 0 && args[0].P == nil && len(args[0].L) == 1 {
			if _, isPtr := r.Type().Underlying().(*types.Pointer); isPtr && !c.knownNonNil(args[0].L[0]) {
				fr.safety("nil", "recv."+callee.Name(), R, tNot(tEq(args[0].L[0], "null")))
			}
		}
		c.note("extern modelled as a deterministic function of its arguments (A-IEPURE): %s", key)
		return packResults(c.detResults(key, resT, args), resT)
	}
	c.note("extern without contract (results unconstrained, no heap effect assumed): %s", key)
	return c.freshResults(sanitize(callee.Name()), resT)
}

func pkgOf(fn *ssa.Function) *types.Package {
	if fn.Pkg != nil {
		return fn.Pkg.Pkg
	}
	if fn.Parent() != nil {
		return pkgOf(fn.Parent())
	}
	if recv := fn.Signature.Recv(); recv != nil {
		if n, ok := derefT(recv.Type()).(*types.Named); ok {
			return n.Obj().Pkg()
		}
	}
	return nil
}

func pkgPath(fn *ssa.Function) string {
	if p := pkgOf(fn); p != nil {
		return p.Path()
	}
	return ""
}

// invoke: interface method call.
func (fr *Frame) invoke(instr ssa.Instruction, common *ssa.CallCommon, recv Val, args []Val, st *State, R string) Val {
	c := fr.c
	c.declIface()
	IT := common.Value.Type()
	mname := common.Method.Name()
	resT := common.Signature().Results()
	x := recv.L[0]
	if fc := c.W.ifaceContract(IT, mname); fc != nil {
		if !fc.Flags["nilok"] {
			fr.safety("nilinvoke", fr.srcName(common.Value)+"."+mname, R, tNot(tEq(x, "inil")))
		}
		return fr.contractCall(instr, fc, fc.Key(), nil, common.Signature(), append([]Val{recv}, args...), st, R)
	}
	fr.safety("nilinvoke", fr.srcName(common.Value)+"."+mname, R, tNot(tEq(x, "inil")))
	impls := c.W.implementers(IT)
	restricted := false
	if c.top != nil && c.top.Dispatch != nil {
		if names, ok := c.top.Dispatch[c.typeKey(IT)]; ok {
			var keep []types.Type
			for _, T := range impls {
				for _, n := range names {
					if c.typeKey(T) == n || c.typeKey(derefT(T)) == n {
						keep = append(keep, T)
					}
				}
			}
			impls = keep
			restricted = true
		}
	}
	var conds []string
	var states []*State
	var rvs []Val
	none := []string{}
	for _, T := range impls {
		fn := c.W.prog.LookupMethod(T, common.Method.Pkg(), mname)
		if fn == nil {
			continue
		}
		cond := c.define("dyn", SBool, tAnd(R, tEq(app("itag", x), c.typeID(T))))
		none = append(none, tNot(tEq(app("itag", x), c.typeID(T))))
		rv := c.ifacePayload(x, T)
		// the method may be declared on the value type while T is the pointer type (or vice versa via wrappers)
		s2 := st.clone()
		var r Val
		if fn.Synthetic != "" && fn.Blocks != nil && fn.Pkg == nil {
			// wrapper: inline it
			sub := &Frame{c: c, fn: fn, depth: fr.depth + 1, prefix: fr.prefix, stack: append(append([]*ssa.Function{}, fr.stack...), fr.fn)}
			out, o2, _ := c.execFunc(sub, append([]Val{rv}, args...), s2, cond)
			s2 = o2
			r = packResults(out, resT)
		} else {
			r = fr.callStatic(instr, fn, nil, append([]Val{rv}, args...), s2, cond)
		}
		conds = append(conds, cond)
		states = append(states, s2)
		rvs = append(rvs, r)
	}
	// unknown dynamic type
	other := c.define("dynother", SBool, tAnd(append([]string{R}, none...)...))
	if restricted {
		// the contract limits the dynamic types of this interface; that limit is itself an obligation
		fr.safety("dispatch", fr.srcName(common.Value)+"."+mname, R, tNot(tAnd(none...)))
	} else {
		c.note("invoke %s.%s on a dynamic type outside the repository is assumed to have no effect on modelled state", c.typeKey(IT), mname)
		conds = append(conds, other)
		states = append(states, st.clone())
		rvs = append(rvs, c.freshResults("inv_"+mname, resT))
	}
	merged := c.mergeStates(conds, states)
	*st = *merged
	if resT.Len() == 0 {
		return Val{}
	}
	if resT.Len() == 1 {
		return c.mergeVals(conds, rvs, resT.At(0).Type())
	}
	out := Val{T: resT}
	for i := 0; i < resT.Len(); i++ {
		var vs []Val
		for _, r := range rvs {
			vs = append(vs, r.Tup[i])
		}
		out.Tup = append(out.Tup, c.mergeVals(conds, vs, resT.At(i).Type()))
	}
	return out
}

func (fr *Frame) sprintf(instr ssa.Instruction, key string, args []Val, st *State, R string) Val {
	c := fr.c
	c.declStr()
	// args: format string, variadic slice of interface{}
	var fmtTerm string
	var va Val
	if key == "fmt.Sprintf" {
		fmtTerm = args[0].L[0]
		va = args[1]
	} else {
		fmtTerm = c.strLit("%v")
		va = args[0]
	}
	// number of variadic args must be syntactically known
	n := -1
	if call, ok := instr.(ssa.CallInstruction); ok {
		cargs := call.Common().Args
		if sl, ok := cargs[len(cargs)-1].(*ssa.Slice); ok {
			if al, ok := sl.X.(*ssa.Alloc); ok {
				if a, ok := derefT(al.Type()).Underlying().(*types.Array); ok {
					n = int(a.Len())
				}
			}
		} else if k, ok := cargs[len(cargs)-1].(*ssa.Const); ok && k.Value == nil {
			n = 0
		}
	}
	if n < 0 || n > 4 {
		c.note("fmt.Sprintf with unknown argument count: result unconstrained")
		return c.freshVal("sprintf", types.Typ[types.String])
	}
	el := types.NewInterfaceType(nil, nil)
	var ts []string
	sorts := []string{SStr}
	ts = append(ts, fmtTerm)
	for i := 0; i < n; i++ {
		v := c.loadElem(st, el, va.L[0], idxAt(va.L[1], bvU(uint64(i), 64)))
		ts = append(ts, c.fmtArg(v.L[0]))
		sorts = append(sorts, SStr)
	}
	c.note("fmt.Sprintf modelled as an uninterpreted, deterministic function of the format and the printed form of each argument")
	return Val{T: types.Typ[types.String], L: []string{c.define("s", SStr, c.sprintfTerm(ts, sorts))}}
}

// sprintfTerm builds sprintfN(format, printed args...).  For the transaction-key format "%s-%d" the function is
// injective in its arguments (the decimal rendering contains no '-', so the last '-' splits the key uniquely) and
// %d of an integer is injective; both facts are asserted as axioms (listed in the evidence).
func (c *Ctx) sprintfTerm(ts, sorts []string) string {
	fn := fmt.Sprintf("sprintf%d", len(ts)-1)
	c.declFun(fn, strings.Join(sorts, " "), SStr)
	if len(ts) == 3 && ts[0] == c.strLit("%s-%d") {
		c.note("axiom: the key format %%s-%%d is injective in (printed address, sequence number)")
		c.raw("sprintf-inj", fmt.Sprintf("(assert (forall ((a Str) (b Str) (c Str) (d Str)) (! (=> (= (%s %s a b) (%s %s c d)) (and (= a c) (= b d))) :pattern ((%s %s a b) (%s %s c d)))))",
			fn, ts[0], fn, ts[0], fn, ts[0], fn, ts[0]))
		c.declFun("mk_uint32", bvSort(32), SIface)
		c.declFun("fmtarg", SIface, SStr)
		c.raw("fmtarg-u32-inj", "(assert (forall ((n (_ BitVec 32)) (m (_ BitVec 32))) (! (=> (= (fmtarg (mk_uint32 n)) (fmtarg (mk_uint32 m))) (= n m)) :pattern ((fmtarg (mk_uint32 n)) (fmtarg (mk_uint32 m))))))")
	}
	return app(fn, ts...)
}

// fmtArg: the printed form of an interface value (uninterpreted, deterministic).
func (c *Ctx) fmtArg(x string) string {
	c.declFun("fmtarg", SIface, SStr)
	return app("fmtarg", x)
}

// ---------------------------------------------------------------------------
// Builtins

func (fr *Frame) builtin(instr ssa.Instruction, b *ssa.Builtin, common *ssa.CallCommon, args []Val, st *State, R string) Val {
	c := fr.c
	switch b.Name() {
	case "len":
		T := common.Args[0].Type()
		switch u := T.Underlying().(type) {
		case *types.Slice:
			return Val{T: types.Typ[types.Int], L: []string{args[0].L[2]}}
		case *types.Basic:
			c.declStr()
			return Val{T: types.Typ[types.Int], L: []string{app("strlen", args[0].L[0])}}
		case *types.Map:
			return Val{T: types.Typ[types.Int], L: []string{c.mapLen(st, R, c.mapInfo(T), args[0].L[0])}}
		case *types.Chan:
			return Val{T: types.Typ[types.Int], L: []string{c.chanLen(st, args[0].L[0])}}
		case *types.Pointer:
			if a, ok := u.Elem().Underlying().(*types.Array); ok {
				return Val{T: types.Typ[types.Int], L: []string{bvI(a.Len(), 64)}}
			}
		case *types.Array:
			return Val{T: types.Typ[types.Int], L: []string{bvI(u.Len(), 64)}}
		}
		c.fail("len of %s", T)
	case "cap":
		T := common.Args[0].Type()
		if _, ok := T.Underlying().(*types.Slice); ok {
			// capacity is not modelled: some value >= len
			cp := c.fresh("cap", bvSort(64))
			c.assume(R, tAnd(app("bvule", args[0].L[2], cp), app("bvult", cp, lenBound)))
			return Val{T: types.Typ[types.Int], L: []string{cp}}
		}
		if _, ok := T.Underlying().(*types.Chan); ok {
			return Val{T: types.Typ[types.Int], L: []string{c.chanCap(st, args[0].L[0])}}
		}
		c.fail("cap of %s", T)
	case "append":
		return fr.appendBuiltin(common, args, st, R)
	case "copy":
		return fr.copyBuiltin(common, args, st, R)
	case "delete":
		mi := c.mapInfo(common.Args[0].Type())
		c.mapDelete(st, mi, args[0].L[0], args[1].L[0])
		return Val{}
	case "close":
		ch := args[0].L[0]
		fr.safety("closenil", fr.srcName(common.Args[0]), R, tNot(tEq(ch, "null")))
		fr.safety("closeclosed", fr.srcName(common.Args[0]), R, tNot(c.chanClosed(st, ch)))
		c.chanClose(st, ch)
		return Val{}
	case "print", "println":
		return Val{}
	case "recover":
		return Val{T: types.NewInterfaceType(nil, nil), L: []string{"inil"}}
	case "min", "max":
		T := common.Args[0].Type()
		cur := args[0].L[0]
		for _, a := range args[1:] {
			lt := "bvult"
			if isSigned(T) {
				lt = "bvslt"
			}
			if b.Name() == "min" {
				cur = tIte(app(lt, a.L[0], cur), a.L[0], cur)
			} else {
				cur = tIte(app(lt, cur, a.L[0]), a.L[0], cur)
			}
		}
		return Val{T: T, L: []string{c.define("mm", c.leaves(T)[0].Sort, cur)}}
	}
	c.fail("builtin %s", b.Name())
	return Val{}
}

// rowCopy describes new[i] for i in [dstLo, dstLo+n) = src[srcLo + (i-dstLo)], else old[i].
func (c *Ctx) copyRows(st *State, guard string, el types.Type, dstBase, dstLo, n string, srcBase, srcLo string, srcStr string, fresh bool) {
	for _, l := range c.leaves(el) {
		key := "E|" + c.typeKey(el) + l.Path
		rs := arrSort(bvSort(64), l.Sort)
		sort := arrSort(SRef, rs)
		cur := c.comp(st, key, sort)
		row := c.fresh("row", rs)
		var src string
		if srcStr != "" {
			src = app("strbyte", srcStr, app("bvadd", srcLo, app("bvsub", "i", dstLo)))
		} else {
			src = tSel(tSel(cur, srcBase), idxAt(srcLo, app("bvsub", "i", dstLo)))
		}
		inRange := tAnd(app("bvule", dstLo, "i"), app("bvult", "i", app("bvadd", dstLo, n)))
		old := tSel(tSel(cur, dstBase), "i")
		c.assume("true", fmt.Sprintf("(forall ((i (_ BitVec 64))) (! (= (select %s i) (ite %s %s %s)) :pattern ((select %s i))))", row, inRange, src, old, row))
		c.setComp(st, key, sort, tStore(cur, dstBase, row))
	}
	if strings.HasSuffix(c.typeKey(el), "") {
		// length leaves inside copied elements keep their validity (copied from valid rows)
	}
}

func (fr *Frame) appendBuiltin(common *ssa.CallCommon, args []Val, st *State, R string) Val {
	c := fr.c
	T := common.Args[0].Type()
	el := T.Underlying().(*types.Slice).Elem()
	s := args[0]
	nb := c.newRef(st, R, "slice")
	var addLen, srcBase, srcOff, srcStr string
	ST := common.Args[1].Type()
	if b, ok := ST.Underlying().(*types.Basic); ok && b.Info()&types.IsString != 0 {
		c.declStr()
		srcStr = args[1].L[0]
		addLen = app("strlen", srcStr)
		srcOff = bvU(0, 64)
	} else {
		srcBase, srcOff, addLen = args[1].L[0], args[1].L[1], args[1].L[2]
	}
	newLen := c.define("len", bvSort(64), app("bvadd", s.L[2], addLen))
	c.assume(R, app("bvult", newLen, lenBound))
	if fromReslice(common.Args[0], 0) {
		// the buffer-reuse idiom (buf = buf[:0]; buf = append(buf, ...)): the slice was cut shorter than its array, so
		// append may write in place - modelled as a free choice between writing behind the slice in its own array and
		// copying to a fresh one.
		c.note("append to a re-sliced buffer modelled as in-place write or fresh copy (free choice)")
		ip := c.fresh("inplace", SBool)
		ipc := tAnd(ip, tNot(tEq(s.L[0], "null")))
		for _, l := range c.leaves(el) {
			key := "E|" + c.typeKey(el) + l.Path
			rs := arrSort(bvSort(64), l.Sort)
			sort := arrSort(SRef, rs)
			cur := c.comp(st, key, sort)
			rowF := c.fresh("row", rs)
			rowI := c.fresh("row", rs)
			var src2, src2i string
			if srcStr != "" {
				src2 = app("strbyte", srcStr, app("bvsub", "i", s.L[2]))
				src2i = app("strbyte", srcStr, app("bvsub", app("bvsub", "i", s.L[1]), s.L[2]))
			} else {
				src2 = tSel(tSel(cur, srcBase), idxAt(srcOff, app("bvsub", "i", s.L[2])))
				src2i = tSel(tSel(cur, srcBase), idxAt(srcOff, app("bvsub", app("bvsub", "i", s.L[1]), s.L[2])))
			}
			src1 := tSel(tSel(cur, s.L[0]), idxAt(s.L[1], "i"))
			bodyF := tIte(app("bvult", "i", s.L[2]), src1, tIte(app("bvult", "i", newLen), src2, c.zeroLeaf(l)))
			c.assume("true", fmt.Sprintf("(forall ((i (_ BitVec 64))) (! (= (select %s i) %s) :pattern ((select %s i))))", rowF, bodyF, rowF))
			lo := app("bvadd", s.L[1], s.L[2])
			hi := app("bvadd", s.L[1], newLen)
			bodyI := tIte(tAnd(app("bvule", lo, "i"), app("bvult", "i", hi)), src2i, tSel(tSel(cur, s.L[0]), "i"))
			c.assume("true", fmt.Sprintf("(forall ((i (_ BitVec 64))) (! (= (select %s i) %s) :pattern ((select %s i))))", rowI, bodyI, rowI))
			c.setComp(st, key, sort, tIte(ipc, tStore(cur, s.L[0], rowI), tStore(cur, nb, rowF)))
		}
		return Val{T: T, L: []string{tIte(ipc, s.L[0], nb), tIte(ipc, s.L[1], bvU(0, 64)), newLen}}
	}
	c.note("append modelled as copy to a fresh backing array (aliasing through spare capacity not modelled, A-APPEND)")
	for _, l := range c.leaves(el) {
		key := "E|" + c.typeKey(el) + l.Path
		rs := arrSort(bvSort(64), l.Sort)
		sort := arrSort(SRef, rs)
		cur := c.comp(st, key, sort)
		row := c.fresh("row", rs)
		var src2 string
		if srcStr != "" {
			src2 = app("strbyte", srcStr, app("bvsub", "i", s.L[2]))
		} else {
			src2 = tSel(tSel(cur, srcBase), idxAt(srcOff, app("bvsub", "i", s.L[2])))
		}
		src1 := tSel(tSel(cur, s.L[0]), idxAt(s.L[1], "i"))
		body := tIte(app("bvult", "i", s.L[2]), src1, tIte(app("bvult", "i", newLen), src2, c.zeroLeaf(l)))
		c.assume("true", fmt.Sprintf("(forall ((i (_ BitVec 64))) (! (= (select %s i) %s) :pattern ((select %s i))))", row, body, row))
		c.setComp(st, key, sort, tStore(cur, nb, row))
	}
	return Val{T: T, L: []string{nb, bvU(0, 64), newLen}}
}

// fromReslice: the value is a slice cut out of another slice (x[lo:hi]), possibly through phis: its array may extend
// beyond its length.
func fromReslice(v ssa.Value, depth int) bool {
	if depth > 4 {
		return false
	}
	switch x := v.(type) {
	case *ssa.Slice:
		_, isSlice := x.X.Type().Underlying().(*types.Slice)
		return isSlice
	case *ssa.Phi:
		for _, e := range x.Edges {
			if fromReslice(e, depth+1) {
				return true
			}
		}
	}
	return false
}

func (fr *Frame) copyBuiltin(common *ssa.CallCommon, args []Val, st *State, R string) Val {
	c := fr.c
	T := common.Args[0].Type()
	el := T.Underlying().(*types.Slice).Elem()
	d := args[0]
	var srcLen, srcBase, srcOff, srcStr string
	if b, ok := common.Args[1].Type().Underlying().(*types.Basic); ok && b.Info()&types.IsString != 0 {
		c.declStr()
		srcStr = args[1].L[0]
		srcLen = app("strlen", srcStr)
		srcOff = bvU(0, 64)
	} else {
		srcBase, srcOff, srcLen = args[1].L[0], args[1].L[1], args[1].L[2]
	}
	n := c.define("n", bvSort(64), tIte(app("bvult", d.L[2], srcLen), d.L[2], srcLen))
	c.copyRows(st, R, el, d.L[0], d.L[1], n, srcBase, srcOff, srcStr, false)
	return Val{T: types.Typ[types.Int], L: []string{n}}
}

// ---------------------------------------------------------------------------
// Contract calls

// bindParams builds the spec environment for a contract given actual values.
func (c *Ctx) contractEnv(fc *FuncContract, sig *types.Signature, args []Val, hasRecv bool) map[string]Val {
	vars := map[string]Val{}
	i := 0
	if fc.Recv != "" {
		if len(args) == 0 {
			c.fail("contract %s: missing receiver", fc.Key())
		}
		vars[fc.RecvName] = args[0]
		i = 1
	}
	if len(args)-i != len(fc.Params) {
		c.fail("contract %s: %d parameters declared, %d passed", fc.Key(), len(fc.Params), len(args)-i)
	}
	for k, n := range fc.Params {
		vars[n] = args[i+k]
	}
	return vars
}

func (fr *Frame) contractCall(instr ssa.Instruction, fc *FuncContract, key string, callee *ssa.Function, sig *types.Signature, args []Val, st *State, R string) Val {
	c := fr.c
	if fc.Extern {
		c.externUsed[fc.Key()] = true
	}
	pkg := c.pkgOfContract(fc)
	vars := c.contractEnv(fc, sig, args, true)
	env := &Env{c: c, st: st, vars: vars, pkg: pkg, guard: R}
	short := fc.Name
	if fc.Recv != "" {
		short = fc.Recv + "." + fc.Name
	}
	for i, rq := range fc.Requires {
		label := rq.Label
		if label == "" {
			label = fmt.Sprintf("pre%d", i+1)
		}
		for k, conj := range c.splitGoal(env, rq.E) {
			nm := fmt.Sprintf("call{%s}.%s", short, label)
			if k > 0 || conj.n > 1 {
				nm = fmt.Sprintf("%s.%d", nm, k+1)
			}
			c.oblige("requires", fr.oblName(nm), R, conj.t)
		}
	}
	old := st.clone()
	// the callee may allocate: the allocation set grows
	a1 := c.growAlloc(st)
	c.havocAlloc = a1
	// havoc
	fr.havocModifies(fc, env, st, R)
	c.havocAlloc = ""
	// results
	resT := sig.Results()
	if len(fc.Results) != resT.Len() {
		c.fail("contract %s: %d results declared, signature has %d", fc.Key(), len(fc.Results), resT.Len())
	}
	var rv []Val
	post := map[string]Val{}
	for k, v := range vars {
		post[k] = v
	}
	var det []Val
	if callee != nil && c.W.isDeterministic(callee) {
		det = c.detResults(key, resT, args)
	}
	for i, n := range fc.Results {
		var v Val
		if det != nil {
			v = det[i]
		} else {
			v = c.freshVal("ret_"+n, resT.At(i).Type())
		}
		rv = append(rv, v)
		post[n] = v
	}
	penv := &Env{c: c, st: st, old: old, vars: post, pkg: pkg, guard: R}
	for _, en := range fc.Ensures {
		c.assume(R, penv.evalBool(en.E))
	}
	for _, ow := range fc.Owns {
		when := "true"
		if ow.When != nil {
			when = penv.evalBool(ow.When)
		}
		x, y := penv.eval(ow.X), penv.eval(ow.Y)
		c.declFun("ownerOf", SRef, SRef)
		c.assume(tAnd(R, when), tEq(app("ownerOf", x.L[0]), y.L[0]))
	}
	return packResults(rv, resT)
}

func (c *Ctx) pkgOfContract(fc *FuncContract) *types.Package {
	for _, p := range c.W.byName[fc.PkgName] {
		if p.Types != nil {
			if !fc.Extern && !strings.HasPrefix(p.PkgPath, c.W.modPath) {
				continue
			}
			return p.Types
		}
	}
	for _, p := range c.W.byName[fc.PkgName] {
		if p.Types != nil {
			return p.Types
		}
	}
	c.fail("contract %s: package %s not loaded", fc.Key(), fc.PkgName)
	return nil
}

type conj struct {
	t string
	n int
}

// splitGoal evaluates a boolean spec expression as a proof goal: top-level conjunctions are split (through pred
// definitions), implications keep their hypothesis, and top-level universal quantifiers are skolemised with
// fresh constants (solvers handle an explicit skolem constant much better than a negated quantifier).
func (c *Ctx) splitGoal(env *Env, e Expr) []conj {
	type part struct {
		env  *Env
		e    Expr
		hyps []string
	}
	var parts []part
	var rec func(env *Env, e Expr, hyps []string, depth int)
	rec = func(env *Env, e Expr, hyps []string, depth int) {
		switch x := e.(type) {
		case *EBin:
			if x.Op == "&&" {
				rec(env, x.X, hyps, depth)
				rec(env, x.Y, hyps, depth)
				return
			}
			if x.Op == "==>" {
				h := env.evalBool(x.X)
				rec(env, x.Y, append(append([]string{}, hyps...), h), depth)
				return
			}
		case *EQuant:
			if x.Forall {
				if len(c.known) > 0 && c.known[alphaNorm(env.evalBool(x))] {
					parts = append(parts, part{env, nil, hyps})
					return
				}
				vars := map[string]Val{}
				for _, b := range x.Vars {
					rt := c.resolveType(env.pkg, b.T)
					sk := c.fresh("sk_"+b.Name, c.sortOfRT(rt))
					vars[b.Name] = Val{T: rt.Go, ST: rt.S, L: []string{sk}}
				}
				rec(env.with(vars), x.Body, hyps, depth)
				return
			}
		case *ECall:
			if p, ok := c.W.pures[x.Fun]; ok && x.Pkg == "" && x.Recv == nil && p.Ret == nil && depth < 4 && len(p.Params) == len(x.Args) &&
				(!p.Opaque || (c.top != nil && c.top.Reveal[p.Name])) {
				if p.Opaque {
					// make sure the defining equation of this instance is present
					env.eval(x)
				}
				vars := map[string]Val{}
				for i, b := range p.Params {
					rt := c.resolveType(env.pkg, b.T)
					v := env.eval(x.Args[i])
					if v.Const != nil {
						v = env.coerceConst(v, rt.Go)
					}
					vars[b.Name] = v
				}
				n := *env
				n.vars = vars
				rec(&n, p.Body, hyps, depth+1)
				return
			}
		}
		parts = append(parts, part{env, e, hyps})
	}
	rec(env, e, nil, 0)
	var out []conj
	for _, p := range parts {
		if p.e == nil {
			// identical to an unconditionally assumed fact
			c.identities++
			out = append(out, conj{"true", len(parts)})
			continue
		}
		t := p.env.evalBool(p.e)
		for i := len(p.hyps) - 1; i >= 0; i-- {
			t = tImp(p.hyps[i], t)
		}
		out = append(out, conj{t, len(parts)})
	}
	return out
}

// ---------------------------------------------------------------------------
// Locations (modifies clauses)

type Loc struct {
	Kind  string                // "field", "elems", "map", "ghost", "fieldset"
	Keys  []Leaf                // component keys with element sort
	Ref   string                // object / backing / map ref
	Lo    string                // elems: absolute lower bound (inclusive) or ""
	Hi    string                // elems: absolute upper bound (exclusive)
	In    func(r string) string // fieldset: membership condition on the object reference
	inner string                // whole: kind of the wrapped designator
}

// refIn: condition under which object reference r is covered by a field(-set) location.
func (l Loc) refIn(r string) string {
	if l.Kind == "fieldset" {
		return l.In(r)
	}
	return tEq(r, l.Ref)
}

// evalLoc resolves a modifies designator in the given environment.
func (c *Ctx) evalLoc(env *Env, e Expr) []Loc {
	switch x := e.(type) {
	case *EQuant:
		// forall v T :: cond ==> designator  — the designated locations for every v satisfying cond
		imp, ok := x.Body.(*EBin)
		if !x.Forall || !ok || imp.Op != "==>" || len(x.Vars) != 1 {
			c.fail("modifies: quantified designator must be 'forall v T :: cond ==> designator'")
		}
		rt := c.resolveType(env.pkg, x.Vars[0].T)
		sort := c.sortOfRT(rt)
		c.nsym++
		bv := fmt.Sprintf("%s!q%d", x.Vars[0].Name, c.nsym)
		sub := env.with(map[string]Val{x.Vars[0].Name: {T: rt.Go, ST: rt.S, L: []string{bv}}})
		cond := sub.evalBool(imp.X)
		var out []Loc
		for _, l := range c.evalLoc(sub, imp.Y) {
			inner := l
			switch inner.Kind {
			case "field", "map", "fieldset":
			default:
				c.fail("modifies: quantified designator over %s locations is not supported", inner.Kind)
			}
			out = append(out, Loc{Kind: "fieldset", Keys: inner.Keys, In: func(r string) string {
				return fmt.Sprintf("(exists ((%s %s)) (and %s %s))", bv, sort, cond, inner.refIn(r))
			}})
		}
		return out
	case *ECall:
		if x.Fun == "whole" && len(x.Args) == 1 {
			// whole(designator): the components the designator lives in, for every object (coarse frame)
			var out []Loc
			for _, l := range c.evalLoc(env, x.Args[0]) {
				out = append(out, Loc{Kind: "whole", Keys: l.Keys, inner: l.Kind})
			}
			return out
		}
		if x.Fun == "chanstate" && len(x.Args) == 1 {
			// the state (head, tail, capacity, closed flag, buffer) of one channel
			cv := env.eval(x.Args[0])
			ch, ok := cv.T.Underlying().(*types.Chan)
			if !ok || len(cv.L) != 1 {
				c.fail("modifies: chanstate() needs a channel")
			}
			ref := cv.L[0]
			in := func(r string) string { return tEq(r, ref) }
			var keys []Leaf
			for _, k := range []string{"CH|head", "CH|tail", "CH|cap"} {
				keys = append(keys, Leaf{k, bvSort(64), nil})
			}
			keys = append(keys, Leaf{"CH|closed", SBool, nil})
			for _, l := range c.chanBufKeys(ch.Elem()) {
				keys = append(keys, Leaf{l.Path, arrSort(bvSort(64), l.Sort), nil})
			}
			return []Loc{{Kind: "fieldset", Keys: keys, In: in}}
		}
		if x.Fun == "chans" && len(x.Args) == 1 {
			// every channel stored as a value of the given map
			mv := env.eval(x.Args[0])
			mi := c.mapInfo(mv.T)
			ch, ok := mi.V.Underlying().(*types.Chan)
			if !ok {
				c.fail("modifies: chans() needs a map of channels")
			}
			dom := tSel(c.mapDom(env.st, mi), mv.L[0])
			vals, _, _ := c.mapValComp(env.st, mi, 0)
			vrow := tSel(vals, mv.L[0])
			in := func(r string) string {
				return fmt.Sprintf("(exists ((kk %s)) (and (select %s kk) (= (select %s kk) %s)))", mi.ksort, dom, vrow, r)
			}
			var keys []Leaf
			for _, k := range []string{"CH|head", "CH|tail", "CH|cap"} {
				keys = append(keys, Leaf{k, bvSort(64), nil})
			}
			keys = append(keys, Leaf{"CH|closed", SBool, nil})
			for _, l := range c.chanBufKeys(ch.Elem()) {
				keys = append(keys, Leaf{l.Path, arrSort(bvSort(64), l.Sort), nil})
			}
			return []Loc{{Kind: "fieldset", Keys: keys, In: in}}
		}
	case *EIdent:
		if g, ok := c.W.ghosts[x.Name]; ok {
			rt := c.resolveType(env.pkg, g.T)
			return []Loc{{Kind: "ghost", Keys: []Leaf{{"G|" + x.Name, c.sortOfRT(rt), nil}}}}
		}
		// a slice-typed parameter alone means its elements
		v := env.eval(x)
		if sl, ok := v.T.Underlying().(*types.Slice); ok {
			return []Loc{c.elemsLoc(sl.Elem(), v.L[0], v.L[1], app("bvadd", v.L[1], v.L[2]))}
		}
		if _, ok := v.T.Underlying().(*types.Map); ok {
			return []Loc{c.mapLoc(v.T, v.L[0])}
		}
		c.fail("modifies: %s is not a location", x.Name)
	case *ESel:
		// m[_].f : field f of every object stored as a value of map m
		if ix, ok := x.X.(*EIndex); ok {
			if id, ok := ix.I.(*EIdent); ok && id.Name == "_" {
				mv := env.eval(ix.X)
				if _, isMap := mv.T.Underlying().(*types.Map); isMap {
					mi := c.mapInfo(mv.T)
					S := derefT(mi.V)
					dom := tSel(c.mapDom(env.st, mi), mv.L[0])
					vals, _, _ := c.mapValComp(env.st, mi, 0)
					vrow := tSel(vals, mv.L[0])
					in := func(r string) string {
						return fmt.Sprintf("(exists ((kk %s)) (and (select %s kk) (= (select %s kk) %s)))", mi.ksort, dom, vrow, r)
					}
					var locs []Loc
					if x.Name == "*" {
						locs = c.objectLocs(S, "?")
					} else {
						obj, path := lookupFieldAnyPkg(S, x.Name)
						if obj == nil {
							c.fail("modifies: no field %s in %s", x.Name, S)
						}
						cur := S
						wrap := func(r string) string { return r }
						for _, idx := range path[:len(path)-1] {
							prev, cs, ci := wrap, cur, idx
							wrap = func(r string) string { return c.subRef(cs, ci, prev(r)) }
							cur = cur.Underlying().(*types.Struct).Field(idx).Type()
						}
						f := cur.Underlying().(*types.Struct).Field(path[len(path)-1])
						var keys []Leaf
						for _, l := range c.leaves(f.Type()) {
							keys = append(keys, Leaf{"F|" + c.structKey(cur) + "." + f.Name() + l.Path, l.Sort, l.T})
						}
						locs = []Loc{{Kind: "field", Keys: keys}}
						in = func(r string) string {
							return fmt.Sprintf("(exists ((kk %s)) (and (select %s kk) (= %s %s)))", mi.ksort, dom, wrap("(select "+vrow+" kk)"), r)
						}
					}
					for i := range locs {
						if locs[i].Ref != "?" && locs[i].Ref != "" {
							c.fail("modifies: m[_].* over embedded structs is not supported")
						}
						locs[i].Kind = "fieldset"
						locs[i].In = in
					}
					return locs
				}
			}
		}
		if x.Name == "*" {
			v := env.eval(x.X)
			return c.objectLocs(derefT(v.T), v.L[0])
		}
		base := env.eval(x.X)
		S := derefT(base.T)
		obj, path := lookupFieldAnyPkg(S, x.Name)
		if obj == nil {
			c.fail("modifies: no field %s in %s", x.Name, S)
		}
		ref := base.L[0]
		cur := S
		for k, idx := range path {
			f := cur.Underlying().(*types.Struct).Field(idx)
			if k == len(path)-1 {
				if isStruct(f.Type()) {
					return c.objectLocs(f.Type(), c.subRef(cur, idx, ref))
				}
				var keys []Leaf
				for _, l := range c.leaves(f.Type()) {
					keys = append(keys, Leaf{"F|" + c.structKey(cur) + "." + f.Name() + l.Path, l.Sort, l.T})
				}
				return []Loc{{Kind: "field", Keys: keys, Ref: ref}}
			}
			ref = c.subRef(cur, idx, ref)
			cur = f.Type()
		}
	case *EIndex:
		if id, ok := x.I.(*EIdent); ok && id.Name == "_" {
			v := env.eval(x.X)
			if sl, ok := v.T.Underlying().(*types.Slice); ok {
				return []Loc{c.elemsLoc(sl.Elem(), v.L[0], v.L[1], app("bvadd", v.L[1], v.L[2]))}
			}
			if _, ok := v.T.Underlying().(*types.Map); ok {
				return []Loc{c.mapLoc(v.T, v.L[0])}
			}
			c.fail("modifies: [_] needs slice or map")
		}
		v := env.eval(x.X)
		if sl, ok := v.T.Underlying().(*types.Slice); ok {
			i := env.evalIndex(x.I)
			lo := app("bvadd", v.L[1], i)
			return []Loc{c.elemsLoc(sl.Elem(), v.L[0], lo, app("bvadd", lo, bvU(1, 64)))}
		}
		c.fail("modifies: unsupported index designator")
	case *ESlice:
		v := env.eval(x.X)
		sl, ok := v.T.Underlying().(*types.Slice)
		if !ok {
			c.fail("modifies: slice designator on %s", v.T)
		}
		lo := v.L[1]
		if x.Lo != nil {
			lo = app("bvadd", v.L[1], env.evalIndex(x.Lo))
		}
		hi := app("bvadd", v.L[1], v.L[2])
		if x.Hi != nil {
			hi = app("bvadd", v.L[1], env.evalIndex(x.Hi))
		}
		return []Loc{c.elemsLoc(sl.Elem(), v.L[0], lo, hi)}
	}
	c.fail("modifies: unsupported designator %T", e)
	return nil
}

func (c *Ctx) elemsLoc(el types.Type, base, lo, hi string) Loc {
	var keys []Leaf
	for _, l := range c.leaves(el) {
		keys = append(keys, Leaf{"E|" + c.typeKey(el) + l.Path, l.Sort, l.T})
	}
	return Loc{Kind: "elems", Keys: keys, Ref: base, Lo: lo, Hi: hi}
}

func (c *Ctx) mapLoc(M types.Type, ref string) Loc {
	mi := c.mapInfo(M)
	keys := []Leaf{{"MD|" + mi.key, arrSort(mi.ksort, SBool), nil}, {"ML|" + mi.key, bvSort(64), nil}}
	for _, l := range mi.vls {
		keys = append(keys, Leaf{"MV|" + mi.key + l.Path, arrSort(mi.ksort, l.Sort), nil})
	}
	return Loc{Kind: "map", Keys: keys, Ref: ref}
}

func (c *Ctx) objectLocs(S types.Type, ref string) []Loc {
	st, ok := S.Underlying().(*types.Struct)
	if !ok {
		c.fail("modifies: .* needs a struct pointer, got %s", S)
	}
	var out []Loc
	for i := 0; i < st.NumFields(); i++ {
		f := st.Field(i)
		if isStruct(f.Type()) {
			out = append(out, c.objectLocs(f.Type(), c.subRef(S, i, ref))...)
			continue
		}
		var keys []Leaf
		for _, l := range c.leaves(f.Type()) {
			keys = append(keys, Leaf{"F|" + c.structKey(S) + "." + f.Name() + l.Path, l.Sort, l.T})
		}
		out = append(out, Loc{Kind: "field", Keys: keys, Ref: ref})
	}
	return out
}

func (fr *Frame) havocModifies(fc *FuncContract, env *Env, st *State, R string) {
	c := fr.c
	if !fc.HasModifies || fc.ModAll {
		if fc.Extern && !fc.HasModifies {
			return // extern contracts default to "modifies nothing" (assumption, listed)
		}
		c.havocAll(st)
		c.note("call to %s havocs the whole heap (no modifies clause)", fc.Key())
		return
	}
	// all designators denote locations of the pre-state: resolve them before anything is havocked
	pre := *env
	pre.st = st.clone()
	var locs []Loc
	for _, m := range fc.Modifies {
		locs = append(locs, c.evalLoc(&pre, m)...)
	}
	for _, loc := range locs {
		c.havocLoc(st, loc)
	}
}

func (c *Ctx) havocAll(st *State) {
	var keys []string
	for k := range c.compSort {
		keys = append(keys, k)
	}
	sort.Strings(keys)
	for _, k := range keys {
		if k == "alloc" {
			continue
		}
		st.heap[k] = c.freshComp(k, c.compSort[k])
	}
}

func (c *Ctx) havocLoc(st *State, loc Loc) {
	switch loc.Kind {
	case "ghost":
		k := loc.Keys[0]
		c.compSort[k.Path] = k.Sort
		st.heap[k.Path] = c.fresh(k.Path, k.Sort)
	case "field":
		for _, k := range loc.Keys {
			sort := arrSort(SRef, k.Sort)
			cur := c.comp(st, k.Path, sort)
			nv := c.fresh("hv", k.Sort)
			if strings.HasSuffix(k.Path, "#len") || strings.HasSuffix(k.Path, "#off") {
				c.assume("true", app("bvult", nv, lenBound))
			}
			if k.Sort == SRef && c.havocAlloc != "" {
				c.assume("true", tSel(c.havocAlloc, nv))
			}
			// a designator that evaluates to nil denotes no location
			c.setComp(st, k.Path, sort, tStore(cur, loc.Ref, tIte(tEq(loc.Ref, "null"), tSel(cur, loc.Ref), nv)))
		}
	case "whole":
		for _, k := range loc.Keys {
			sort := arrSort(SRef, k.Sort)
			if loc.inner == "elems" {
				sort = arrSort(SRef, arrSort(bvSort(64), k.Sort))
			}
			if loc.inner == "ghost" {
				sort = k.Sort
			}
			c.compSort[k.Path] = sort
			st.heap[k.Path] = c.freshComp(k.Path, sort)
			if c.havocAlloc != "" {
				c.closedAxiom(k.Path, sort, st.heap[k.Path], c.havocAlloc)
			}
		}
	case "fieldset":
		for _, k := range loc.Keys {
			sort := arrSort(SRef, k.Sort)
			cur := c.comp(st, k.Path, sort)
			nv := c.freshComp(k.Path, sort)
			if c.havocAlloc != "" {
				c.closedAxiom(k.Path, sort, nv, c.havocAlloc)
			}
			c.assume("true", fmt.Sprintf("(forall ((r Ref)) (! (=> (not %s) (= (select %s r) (select %s r))) :pattern ((select %s r))))", loc.In("r"), nv, cur, nv))
			c.compSort[k.Path] = sort
			st.heap[k.Path] = nv
		}
	case "map":
		for _, k := range loc.Keys {
			sort := arrSort(SRef, k.Sort)
			cur := c.comp(st, k.Path, sort)
			nv := c.fresh("hv", k.Sort)
			if strings.HasPrefix(k.Path, "ML|") {
				c.assume("true", app("bvult", nv, lenBound))
			}
			if strings.HasPrefix(k.Path, "MV|") && strings.HasSuffix(k.Sort, " Ref)") && c.havocAlloc != "" {
				ks := strings.TrimSuffix(strings.TrimPrefix(k.Sort, "(Array "), " Ref)")
				c.assume("true", fmt.Sprintf("(forall ((k %s)) (! (select %s (select %s k)) :pattern ((select %s k))))", ks, c.havocAlloc, nv, nv))
			}
			c.setComp(st, k.Path, sort, tStore(cur, loc.Ref, tIte(tEq(loc.Ref, "null"), tSel(cur, loc.Ref), nv)))
		}
	case "elems":
		for _, k := range loc.Keys {
			rs := arrSort(bvSort(64), k.Sort)
			sort := arrSort(SRef, rs)
			cur := c.comp(st, k.Path, sort)
			row := c.fresh("hvrow", rs)
			old := tSel(cur, loc.Ref)
			c.assume("true", fmt.Sprintf("(forall ((i (_ BitVec 64))) (! (=> (not (and (bvule %s i) (bvult i %s))) (= (select %s i) (select %s i))) :pattern ((select %s i))))", loc.Lo, loc.Hi, row, old, row))
			if strings.HasSuffix(k.Path, "#len") || strings.HasSuffix(k.Path, "#off") {
				c.assume("true", fmt.Sprintf("(forall ((i (_ BitVec 64))) (! (bvult (select %s i) %s) :pattern ((select %s i))))", row, lenBound, row))
			}
			if k.Sort == SRef && c.havocAlloc != "" {
				c.assume("true", fmt.Sprintf("(forall ((i (_ BitVec 64))) (! (select %s (select %s i)) :pattern ((select %s i))))", c.havocAlloc, row, row))
			}
			c.setComp(st, k.Path, sort, tStore(cur, loc.Ref, row))
		}
	}
}

// ---------------------------------------------------------------------------
// Loops: write sets, havoc, invariants

type WS struct {
	all    bool
	comps  map[string]string // key -> component sort
	allocs map[*ssa.Alloc]bool
	ranges map[*ssa.Range]bool
}

func newWS() *WS {
	return &WS{comps: map[string]string{}, allocs: map[*ssa.Alloc]bool{}, ranges: map[*ssa.Range]bool{}}
}

func (w *WS) union(o *WS) {
	if o.all {
		w.all = true
	}
	for k, v := range o.comps {
		w.comps[k] = v
	}
}

func (c *Ctx) wsField(S types.Type, field int, out *WS) {
	f := S.Underlying().(*types.Struct).Field(field)
	if isStruct(f.Type()) {
		c.wsStruct(f.Type(), out)
		return
	}
	for _, l := range c.leaves(f.Type()) {
		out.comps["F|"+c.structKey(S)+"."+f.Name()+l.Path] = arrSort(SRef, l.Sort)
	}
}

func (c *Ctx) wsStruct(S types.Type, out *WS) {
	st := S.Underlying().(*types.Struct)
	for i := 0; i < st.NumFields(); i++ {
		c.wsField(S, i, out)
	}
}

func (c *Ctx) wsElems(root string, path string, T types.Type, out *WS) {
	for _, l := range c.leaves(T) {
		out.comps["E|"+root+path+l.Path] = arrSort(SRef, arrSort(bvSort(64), l.Sort))
	}
}

func (c *Ctx) wsMap(M types.Type, out *WS) {
	mi := c.mapInfo(M)
	out.comps["MD|"+mi.key] = arrSort(SRef, arrSort(mi.ksort, SBool))
	out.comps["ML|"+mi.key] = arrSort(SRef, bvSort(64))
	for _, l := range mi.vls {
		out.comps["MV|"+mi.key+l.Path] = arrSort(SRef, arrSort(mi.ksort, l.Sort))
	}
}

// addrWrites: components written by a store through addr.
func (c *Ctx) addrWrites(addr ssa.Value, out *WS) {
	switch a := addr.(type) {
	case *ssa.FieldAddr:
		// element location?
		if root, path, ok := elemLocOf(c, a); ok {
			f := derefT(a.X.Type()).Underlying().(*types.Struct).Field(a.Field)
			_ = path
			c.wsElems(root, path, f.Type(), out)
			return
		}
		c.wsField(derefT(a.X.Type()), a.Field, out)
	case *ssa.IndexAddr:
		var el types.Type
		switch u := a.X.Type().Underlying().(type) {
		case *types.Slice:
			el = u.Elem()
		case *types.Pointer:
			el = u.Elem().Underlying().(*types.Array).Elem()
		}
		c.wsElems(c.typeKey(el), "", el, out)
	case *ssa.Alloc:
		el := derefT(a.Type())
		if isStruct(el) {
			c.wsStruct(el, out)
		} else {
			out.allocs[a] = true
		}
	case *ssa.Global:
		el := derefT(a.Type())
		if isStruct(el) {
			c.wsStruct(el, out)
		} else {
			for _, l := range c.leaves(el) {
				out.comps["GL|"+a.Pkg.Pkg.Name()+"."+a.Name()+l.Path] = l.Sort
			}
		}
	case *ssa.Convert:
		c.addrWrites(a.X, out)
	default:
		el := derefT(addr.Type())
		if isStruct(el) {
			c.wsStruct(el, out)
			return
		}
		out.all = true
	}
}

// elemLocOf: is this FieldAddr rooted at a slice/array element? returns root type key and path incl. this field.
func elemLocOf(c *Ctx, a *ssa.FieldAddr) (string, string, bool) {
	f := derefT(a.X.Type()).Underlying().(*types.Struct).Field(a.Field)
	switch x := a.X.(type) {
	case *ssa.IndexAddr:
		var el types.Type
		switch u := x.X.Type().Underlying().(type) {
		case *types.Slice:
			el = u.Elem()
		case *types.Pointer:
			el = u.Elem().Underlying().(*types.Array).Elem()
		}
		return c.typeKey(el), "." + f.Name(), true
	case *ssa.FieldAddr:
		if r, p, ok := elemLocOf(c, x); ok {
			return r, p + "." + f.Name(), true
		}
	}
	return "", "", false
}

func (c *Ctx) instrWrites(fn *ssa.Function, ins ssa.Instruction, out *WS, stack []*ssa.Function) {
	switch t := ins.(type) {
	case *ssa.Store:
		c.addrWrites(t.Addr, out)
	case *ssa.MapUpdate:
		c.wsMap(t.Map.Type(), out)
	case *ssa.Next:
		if r, ok := t.Iter.(*ssa.Range); ok {
			out.ranges[r] = true
		}
	case *ssa.Send:
		c.wsChan(out)
		c.wsChanBuf(t.Chan.Type(), out)
	case *ssa.Select:
		c.wsChan(out)
		for _, st := range t.States {
			c.wsChanBuf(st.Chan.Type(), out)
		}
	case *ssa.UnOp:
		if t.Op.String() == "<-" {
			c.wsChan(out)
		}
	case *ssa.MakeChan:
		c.wsChan(out)
	case *ssa.MakeMap:
		c.wsMap(t.Type(), out)
	case *ssa.MakeSlice:
		el := t.Type().Underlying().(*types.Slice).Elem()
		c.wsElems(c.typeKey(el), "", el, out)
		out.comps["alloc"] = arrSort(SRef, SBool)
	case *ssa.Alloc:
		out.comps["alloc"] = arrSort(SRef, SBool)
		el := derefT(t.Type())
		if isStruct(el) {
			c.wsStruct(el, out)
		} else if a, ok := el.Underlying().(*types.Array); ok {
			c.wsElems(c.typeKey(a.Elem()), "", a.Elem(), out)
		}
	case *ssa.MakeClosure:
		out.comps["alloc"] = arrSort(SRef, SBool)
	case *ssa.Convert:
		// []byte(string) allocates
		if sl, ok := t.Type().Underlying().(*types.Slice); ok {
			out.comps["alloc"] = arrSort(SRef, SBool)
			c.wsElems(c.typeKey(sl.Elem()), "", sl.Elem(), out)
		}
	case ssa.CallInstruction:
		if _, isGo := ins.(*ssa.Go); isGo {
			return
		}
		if _, isDefer := ins.(*ssa.Defer); isDefer {
			return
		}
		c.callWrites(fn, t.Common(), out, stack)
	}
}

func (c *Ctx) wsChanBuf(T types.Type, out *WS) {
	if ch, ok := T.Underlying().(*types.Chan); ok {
		for _, l := range c.chanBufKeys(ch.Elem()) {
			out.comps[l.Path] = arrSort(SRef, arrSort(bvSort(64), l.Sort))
		}
	}
}

func (c *Ctx) wsChan(out *WS) {
	for k, s := range chanComps {
		out.comps[k] = s
	}
}

func (c *Ctx) callWrites(fn *ssa.Function, common *ssa.CallCommon, out *WS, stack []*ssa.Function) {
	out.comps["alloc"] = arrSort(SRef, SBool)
	if common.IsInvoke() {
		if fc := c.W.ifaceContract(common.Value.Type(), common.Method.Name()); fc != nil {
			c.contractWrites(fc, common.Signature(), common.Value.Type(), out)
			return
		}
		for _, T := range c.W.implementers(common.Value.Type()) {
			if m := c.W.prog.LookupMethod(T, common.Method.Pkg(), common.Method.Name()); m != nil {
				c.fnWrites(m, out, stack)
			}
		}
		return
	}
	if b, ok := common.Value.(*ssa.Builtin); ok {
		switch b.Name() {
		case "append", "copy":
			el := common.Args[0].Type().Underlying().(*types.Slice).Elem()
			c.wsElems(c.typeKey(el), "", el, out)
		case "delete":
			c.wsMap(common.Args[0].Type(), out)
		case "close":
			c.wsChan(out)
		}
		return
	}
	callee := common.StaticCallee()
	if callee == nil {
		if fa := fieldOfFuncValue(common.Value); fa != "" {
			if fc := c.W.contracts["funcfield."+fa]; fc != nil {
				c.contractWrites(fc, common.Signature(), nil, out)
			}
		}
		return
	}
	c.fnWrites(callee, out, stack)
}

func (c *Ctx) fnWrites(callee *ssa.Function, out *WS, stack []*ssa.Function) {
	key := fnKey(callee)
	if fc := c.W.contracts[key]; fc != nil && !fc.Flags["inline"] {
		var recvT types.Type
		if r := callee.Signature.Recv(); r != nil {
			recvT = r.Type()
		}
		c.contractWrites(fc, callee.Signature, recvT, out)
		return
	}
	if callee.Blocks == nil {
		return
	}
	if !(c.W.isRepoPkg(pkgOf(callee)) || c.W.inlinePkg[pkgPath(callee)] || c.inlineExtra[pkgPath(callee)]) {
		return
	}
	for _, f := range stack {
		if f == callee {
			return
		}
	}
	if len(stack) > maxInlineDepth+1 {
		return
	}
	sub := newWS()
	st2 := append(append([]*ssa.Function{}, stack...), callee)
	for _, b := range callee.Blocks {
		for _, ins := range b.Instrs {
			c.instrWrites(callee, ins, sub, st2)
		}
	}
	// stores through pointer parameters of non-struct type cannot be attributed statically
	out.union(sub)
}

// contractWrites: static component set of a contract's modifies clause.
func (c *Ctx) contractWrites(fc *FuncContract, sig *types.Signature, recvT types.Type, out *WS) {
	if !fc.HasModifies {
		if fc.Extern {
			return
		}
		out.all = true
		return
	}
	if fc.ModAll {
		out.all = true
		return
	}
	tenv := map[string]types.Type{}
	if fc.Recv != "" && recvT != nil {
		tenv[fc.RecvName] = recvT
	}
	ps := sig.Params()
	for i, n := range fc.Params {
		if i < ps.Len() {
			tenv[n] = ps.At(i).Type()
		}
	}
	rs := sig.Results()
	for i, n := range fc.Results {
		if i < rs.Len() {
			tenv[n] = rs.At(i).Type()
		}
	}
	pkg := c.pkgOfContract(fc)
	for _, m := range fc.Modifies {
		c.locWrites(m, tenv, pkg, out)
	}
}

func (c *Ctx) specType(e Expr, tenv map[string]types.Type, pkg *types.Package) types.Type {
	switch x := e.(type) {
	case *EIdent:
		if t, ok := tenv[x.Name]; ok {
			return t
		}
	case *ESel:
		bt := c.specType(x.X, tenv, pkg)
		if bt == nil {
			return nil
		}
		cur := derefT(bt)
		obj, _ := lookupFieldAnyPkg(cur, x.Name)
		if obj != nil {
			return obj.Type()
		}
	case *EIndex:
		bt := c.specType(x.X, tenv, pkg)
		if bt == nil {
			return nil
		}
		switch u := bt.Underlying().(type) {
		case *types.Slice:
			return u.Elem()
		case *types.Map:
			return u.Elem()
		}
	case *ESlice:
		return c.specType(x.X, tenv, pkg)
	case *EOld:
		return c.specType(x.X, tenv, pkg)
	case *EBefore:
		return c.specType(x.X, tenv, pkg)
	}
	return nil
}

func (c *Ctx) locWrites(e Expr, tenv map[string]types.Type, pkg *types.Package, out *WS) {
	switch x := e.(type) {
	case *EQuant:
		if imp, ok := x.Body.(*EBin); ok && imp.Op == "==>" && len(x.Vars) == 1 {
			t2 := map[string]types.Type{}
			for k, v := range tenv {
				t2[k] = v
			}
			if rt := c.resolveType(pkg, x.Vars[0].T); rt.Go != nil {
				t2[x.Vars[0].Name] = rt.Go
			}
			c.locWrites(imp.Y, t2, pkg, out)
			return
		}
	case *ECall:
		if x.Fun == "whole" && len(x.Args) == 1 {
			c.locWrites(x.Args[0], tenv, pkg, out)
			return
		}
		if x.Fun == "chanstate" && len(x.Args) == 1 {
			c.wsChan(out)
			if ct := c.specType(x.Args[0], tenv, pkg); ct != nil {
				if ch, ok := ct.Underlying().(*types.Chan); ok {
					for _, l := range c.chanBufKeys(ch.Elem()) {
						out.comps[l.Path] = arrSort(SRef, arrSort(bvSort(64), l.Sort))
					}
				}
			}
			return
		}
		if x.Fun == "chans" && len(x.Args) == 1 {
			c.wsChan(out)
			if mt := c.specType(x.Args[0], tenv, pkg); mt != nil {
				if m, ok := mt.Underlying().(*types.Map); ok {
					if ch, ok := m.Elem().Underlying().(*types.Chan); ok {
						for _, l := range c.chanBufKeys(ch.Elem()) {
							out.comps[l.Path] = arrSort(SRef, arrSort(bvSort(64), l.Sort))
						}
						return
					}
				}
			}
		}
	case *EIdent:
		if g, ok := c.W.ghosts[x.Name]; ok {
			rt := c.resolveType(pkg, g.T)
			out.comps["G|"+x.Name] = c.sortOfRT(rt)
			return
		}
		T := c.specType(x, tenv, pkg)
		if T != nil {
			if sl, ok := T.Underlying().(*types.Slice); ok {
				c.wsElems(c.typeKey(sl.Elem()), "", sl.Elem(), out)
				return
			}
			if _, ok := T.Underlying().(*types.Map); ok {
				c.wsMap(T, out)
				return
			}
		}
	case *ESel:
		if ix, ok := x.X.(*EIndex); ok {
			if id, ok := ix.I.(*EIdent); ok && id.Name == "_" {
				if mt := c.specType(ix.X, tenv, pkg); mt != nil {
					if m, ok := mt.Underlying().(*types.Map); ok {
						S := derefT(m.Elem())
						if x.Name == "*" {
							c.wsStruct(S, out)
							return
						}
						if obj, path := lookupFieldAnyPkg(S, x.Name); obj != nil {
							cur := S
							for _, idx := range path[:len(path)-1] {
								cur = cur.Underlying().(*types.Struct).Field(idx).Type()
							}
							c.wsField(cur, path[len(path)-1], out)
							return
						}
					}
				}
			}
		}
		bt := c.specType(x.X, tenv, pkg)
		if bt != nil {
			S := derefT(bt)
			if x.Name == "*" {
				c.wsStruct(S, out)
				return
			}
			if obj, path := lookupFieldAnyPkg(S, x.Name); obj != nil {
				cur := S
				for k, idx := range path {
					if k == len(path)-1 {
						c.wsField(cur, idx, out)
						return
					}
					cur = cur.Underlying().(*types.Struct).Field(idx).Type()
				}
			}
		}
	case *EIndex, *ESlice:
		var X Expr
		if ix, ok := x.(*EIndex); ok {
			X = ix.X
		} else {
			X = x.(*ESlice).X
		}
		T := c.specType(X, tenv, pkg)
		if T != nil {
			if sl, ok := T.Underlying().(*types.Slice); ok {
				c.wsElems(c.typeKey(sl.Elem()), "", sl.Elem(), out)
				return
			}
			if _, ok := T.Underlying().(*types.Map); ok {
				c.wsMap(T, out)
				return
			}
		}
	}
	out.all = true
}

func (fr *Frame) loopWrites(li *loopInfo) *WS {
	c := fr.c
	out := newWS()
	var blocks []*ssa.BasicBlock
	for b := range li.blocks {
		blocks = append(blocks, b)
	}
	sort.Slice(blocks, func(i, j int) bool { return blocks[i].Index < blocks[j].Index })
	for _, b := range blocks {
		for _, ins := range b.Instrs {
			c.instrWrites(fr.fn, ins, out, append(append([]*ssa.Function{}, fr.stack...), fr.fn))
		}
	}
	return out
}

func (fr *Frame) havocLoop(li *loopInfo, cur *State, R string) *State {
	c := fr.c
	li.preSt = cur.clone()
	ws := fr.loopWrites(li)
	st := cur.clone()
	if ws.all {
		c.note("loop %s in %s writes through an unresolved pointer: whole heap havocked at the loop head", li.desc, fr.fn.Name())
		// make sure every statically known component exists, then havoc all
		c.havocAll(st)
		for cell := range st.cells {
			if cell.T != nil {
				st.cells[cell] = c.freshVal("cell_"+cell.Name, cell.T)
			}
		}
	}
	var keys []string
	var closeLater []string
	for k := range ws.comps {
		keys = append(keys, k)
	}
	sort.Strings(keys)
	li.ws = ws
	if li.ann != nil && li.ann.HasModifies && !ws.all {
		li.allowed = map[string][]Loc{}
		env := fr.loopEnv(li, cur, li.pre, R)
		for _, m := range li.ann.Modifies {
			for _, loc := range c.evalLoc(env, m) {
				for _, k := range loc.Keys {
					li.allowed[k.Path] = append(li.allowed[k.Path], loc)
				}
			}
		}
		li.headAlloc = c.allocComp(cur)
	}
	for _, k := range keys {
		if li.allowed != nil && k != "alloc" {
			c.compSort[k] = ws.comps[k]
			old := c.comp(cur, k, ws.comps[k])
			if strings.HasPrefix(k, "G|") || strings.HasPrefix(k, "GL|") {
				if len(li.allowed[k]) > 0 {
					st.heap[k] = c.freshComp(k, ws.comps[k])
				}
				continue
			}
			nv := c.freshComp(k, ws.comps[k])
			c.assume("true", c.frameFormula(k, li.headAlloc, li.allowed[k], nv, old))
			st.heap[k] = nv
			closeLater = append(closeLater, k)
			continue
		}
		if k == "alloc" {
			c.growAlloc(st)
			continue
		}
		c.compSort[k] = ws.comps[k]
		// make sure the entry version exists before it is replaced (old() and entry snapshots refer to it)
		c.comp(cur, k, ws.comps[k])
		st.heap[k] = c.freshComp(k, ws.comps[k])
		closeLater = append(closeLater, k)
	}
	for _, k := range closeLater {
		c.closedAxiom(k, ws.comps[k], st.heap[k], c.allocComp(st))
	}
	for a := range ws.allocs {
		if v, ok := fr.vals[a]; ok && v.P != nil && v.P.Kind == PCell {
			if old, ok := st.cells[v.P.Cell]; ok && old.P == nil {
				st.cells[v.P.Cell] = c.freshVal("cell_"+v.P.Cell.Name, v.P.Cell.T)
			}
		}
	}
	for r := range ws.ranges {
		if cell, ok := fr.rcells[r]; ok {
			if old, ok := st.cells[cell]; ok {
				st.cells[cell] = Val{ST: old.ST, L: []string{c.fresh("visited", c.sortOfRT(&resolvedType{S: old.ST}))}}
			}
		}
	}
	li.phis = map[*ssa.Phi]Val{}
	for _, ins := range li.header.Instrs {
		phi, ok := ins.(*ssa.Phi)
		if !ok {
			break
		}
		pre := li.pre[phi]
		if pre.P != nil || pre.Fn != nil {
			li.phis[phi] = pre // Go-side pointers must be loop-invariant (checked on the back edge)
			continue
		}
		name := phi.Comment
		if name == "" {
			name = phi.Name()
		}
		pv := c.freshVal("phi_"+name, phi.Type())
		for k, l := range c.leaves(phi.Type()) {
			if l.Sort == SRef {
				c.assume("true", tSel(c.allocComp(st), pv.L[k])) // locals hold allocated references (or nil)
			}
		}
		li.phis[phi] = pv
	}
	return st
}

// loopEnv builds the spec environment at a loop head.
func (fr *Frame) loopEnv(li *loopInfo, st *State, phiVals map[*ssa.Phi]Val, R string) *Env {
	c := fr.c
	vars := map[string]Val{}
	for k, v := range fr.envVars {
		vars[k] = v
	}
	// named locals: allocs (cells), phis, debug refs
	fr.bindLocals(vars, st, li)
	for phi, v := range phiVals {
		if phi.Comment != "" {
			vars[phi.Comment] = v
			if phi.Comment == "rangeindex" {
				// idx = number of completed iterations
				vars["idx"] = Val{T: types.Typ[types.Int], L: []string{app("bvadd", v.L[0], bvU(1, 64))}}
			}
		}
	}
	// a renamed loop-carried variable: the old name follows the value of the loop head, like the new one
	for old, cur := range fr.aliasBound {
		if v, ok := vars[cur]; ok {
			vars[old] = v
		}
	}
	for _, ins := range li.header.Instrs {
		if nx, ok := ins.(*ssa.Next); ok {
			if r, ok := nx.Iter.(*ssa.Range); ok {
				if cell, ok := fr.rcells[r]; ok {
					if v, ok := st.cells[cell]; ok {
						vars["visited"] = v
					}
				}
			}
		}
	}
	var pkg *types.Package
	if p := pkgOf(fr.fn); p != nil {
		pkg = p
	}
	oldSt := fr.entrySt
	if fr.root != nil {
		// a loop of a contract-less helper expanded in place, annotated by the contract of the function that calls it:
		// names the helper does not define are those of that function, old() is that function's entry state
		rv := map[string]Val{}
		for k, v := range fr.root.envVars {
			rv[k] = v
		}
		fr.root.bindLocals(rv, st, nil)
		for k, v := range rv {
			if _, ok := vars[k]; !ok {
				vars[k] = v
			}
		}
		oldSt = fr.root.entrySt
		if p := pkgOf(fr.root.fn); p != nil {
			pkg = p
		}
	}
	bf := li.preSt
	if bf == nil {
		bf = st // establishing the invariant: the loop is being entered in this very state
	}
	return &Env{c: c, st: st, old: oldSt, vars: vars, pkg: pkg, guard: R, before: bf}
}

// bindLocals makes source-level local variable names available to loop invariants.
func (fr *Frame) bindLocals(vars map[string]Val, st *State, li *loopInfo) {
	fr.bindLocals0(vars, st, li)
	fr.aliasBound = nil
	// a recorded local that was renamed: bind the old name to the one current name it can stand for here
	for old, cands := range fr.localAliases() {
		if os.Getenv("GOVC_DEBUGALIAS") != "" {
			_, has := vars[old]
			fmt.Fprintf(os.Stderr, "alias %s -> %v (bound already: %v)\n", old, cands, has)
		}
		if _, ok := vars[old]; ok {
			continue
		}
		// prefer the names bound from a definition that dominates this point (a name of another scope may be bound too,
		// from a block that happens to have been translated already)
		var hit []string
		for _, cn := range cands {
			if fr.domBound[cn] {
				hit = append(hit, cn)
			}
		}
		if len(hit) != 1 {
			hit = nil
			for _, cn := range cands {
				if _, ok := vars[cn]; ok {
					hit = append(hit, cn)
				}
			}
		}
		if os.Getenv("GOVC_DEBUGALIAS") != "" {
			fmt.Fprintf(os.Stderr, "  hits for %s: %v\n", old, hit)
		}
		if len(hit) == 1 {
			vars[old] = vars[hit[0]]
			if fr.aliasBound == nil {
				fr.aliasBound = map[string]string{}
			}
			fr.aliasBound[old] = hit[0]
		}
	}
}

func (fr *Frame) bindLocals0(vars map[string]Val, st *State, li *loopInfo) {
	fr.domBound = map[string]bool{}
	c := fr.c
	bound := map[string]*ssa.BasicBlock{} // block of the debug reference a name is currently bound from
	at := fr.curBlock
	if li != nil {
		at = li.header // invariants speak about the state at the loop head
	}
	if at != nil {
		// the most recent reference to (or merge of) the name in a block dominating the current one
		for name, recs := range fr.refs {
			if _, dup := vars[name]; dup {
				continue
			}
			for i := len(recs) - 1; i >= 0; i-- {
				if li != nil && recs[i].blk == at {
					if _, isPhi := recs[i].v.(*ssa.Phi); !isPhi {
						continue // a reference inside the header block follows the loop head
					}
				}
				if recs[i].blk == at || recs[i].blk.Dominates(at) {
					if v, ok := fr.vals[recs[i].v]; ok {
						vars[name] = v
						fr.domBound[name] = true
					} else if k, isConst := recs[i].v.(*ssa.Const); isConst {
						vars[name] = c.constVal(k)
					}
					break
				}
			}
		}
	}
	for _, b := range fr.fn.Blocks {
		for _, ins := range b.Instrs {
			switch t := ins.(type) {
			case *ssa.Alloc:
				if t.Comment == "" {
					continue
				}
				v, ok := fr.vals[t]
				if !ok {
					continue
				}
				if v.P != nil && v.P.Kind == PCell {
					if cv, ok := st.cells[v.P.Cell]; ok {
						isParam := false
						for _, prm := range fr.fn.Params {
							if prm.Name() == t.Comment {
								isParam = true // a parameter captured by a closure lives in a cell: the cell is the variable
							}
						}
						if _, dup := vars[t.Comment]; !dup || isParam {
							vars[t.Comment] = cv
						}
					}
				} else if v.P == nil && len(v.L) == 1 {
					if _, dup := vars[t.Comment]; !dup {
						vars[t.Comment] = v
					}
				}
			case *ssa.DebugRef:
				id, ok := t.Expr.(interface{ String() string })
				_ = id
				if t.IsAddr {
					continue
				}
				obj := t.Object()
				if obj == nil {
					continue
				}
				v, ok := fr.vals[t.X]
				if !ok {
					if k, isConst := t.X.(*ssa.Const); isConst {
						v = c.constVal(k)
					} else {
						continue
					}
				}
				name := obj.Name()
				if _, isPhi := t.X.(*ssa.Phi); isPhi {
					continue // phis are bound through phiVals
				}
				_, dup := vars[name]
				// a later assignment to the same variable that dominates the loop head supersedes an earlier one
				// (e.g. `var m map[K]V` followed by `m = make(...)`)
				if dup && li != nil && bound[name] != nil && t.Block() != nil &&
					(t.Block() == li.header || t.Block().Dominates(li.header)) && !li.blocks[t.Block()] &&
					(bound[name] == t.Block() || bound[name].Dominates(t.Block())) {
					if vi, ok := t.X.(ssa.Instruction); !ok || !li.blocks[vi.Block()] {
						vars[name] = v
						bound[name] = t.Block()
					}
					continue
				}
				if !dup {
					// only bind values defined outside the loop (loop-invariant) or unique definitions
					if li != nil {
						if vi, ok := t.X.(ssa.Instruction); ok && li.blocks[vi.Block()] {
							continue
						}
					}
					vars[name] = v
					bound[name] = t.Block()
				}
			}
		}
	}
}

func (fr *Frame) autoInvariants(li *loopInfo, phiVals map[*ssa.Phi]Val) []string {
	// range-index loops: -1 <= rangeindex < len
	var out []string
	for _, ins := range li.header.Instrs {
		phi, ok := ins.(*ssa.Phi)
		if !ok {
			break
		}
		if phi.Comment != "rangeindex" {
			continue
		}
		// find the comparison t < len in the header
		for _, j := range li.header.Instrs {
			if bo, ok := j.(*ssa.BinOp); ok && bo.Op.String() == "<" {
				if add, ok := bo.X.(*ssa.BinOp); ok && add.X == phi {
					lv, ok := fr.vals[bo.Y]
					if !ok {
						continue
					}
					pv := phiVals[phi].L[0]
					out = append(out, tAnd(app("bvsle", bvI(-1, 64), pv), app("bvslt", pv, tIte(app("bvsgt", lv.L[0], bvU(0, 64)), lv.L[0], bvU(0, 64))), app("bvult", lv.L[0], lenBound)))
				}
			}
		}
	}
	return out
}

// frameFormula: outside the allowed locations, objects allocated in `alloc` agree between v1 and v0.
func (c *Ctx) frameFormula(key, alloc string, locs []Loc, v1, v0 string) string {
	return c.frameBody(key, alloc, locs, v1, v0, "r", "i", true)
}

// frameGoal is the same statement with the quantified variables replaced by fresh constants (for use as a goal).
func (c *Ctx) frameGoal(key, alloc string, locs []Loc, v1, v0 string) string {
	r := c.fresh("sk_r", SRef)
	i := c.fresh("sk_i", bvSort(64))
	return c.frameBody(key, alloc, locs, v1, v0, r, i, false)
}

func (c *Ctx) frameBody(key, alloc string, locs []Loc, v1, v0, r, i string, quant bool) string {
	for _, l := range locs {
		if l.Kind == "whole" {
			return "true"
		}
	}
	switch {
	case strings.HasPrefix(key, "G|") || strings.HasPrefix(key, "GL|"):
		if len(locs) > 0 {
			return "true"
		}
		return tEq(v1, v0)
	case strings.HasPrefix(key, "E|") || strings.HasPrefix(key, "CHB|"):
		var exc []string
		for _, l := range locs {
			if l.Kind == "elems" {
				exc = append(exc, tAnd(tEq(r, l.Ref), app("bvule", l.Lo, i), app("bvult", i, l.Hi)))
			} else if l.Kind == "fieldset" || l.Kind == "field" {
				exc = append(exc, l.refIn(r))
			}
		}
		body := tImp(tAnd(tSel(alloc, r), tNot(tOr(exc...))), tEq(tSel(tSel(v1, r), i), tSel(tSel(v0, r), i)))
		if !quant {
			return body
		}
		return fmt.Sprintf("(forall ((r Ref) (i (_ BitVec 64))) (! %s :pattern ((select (select %s r) i))))", body, v1)
	}
	var exc []string
	for _, l := range locs {
		exc = append(exc, l.refIn(r))
	}
	body := tImp(tAnd(tSel(alloc, r), tNot(tOr(exc...))), tEq(tSel(v1, r), tSel(v0, r)))
	if !quant {
		return body
	}
	return fmt.Sprintf("(forall ((r Ref)) (! %s :pattern ((select %s r))))", body, v1)
}

func (fr *Frame) checkInvariants(li *loopInfo, st *State, phiVals map[*ssa.Phi]Val, R string, phase string) {
	c := fr.c
	if phase == "preserve" && li.allowed != nil {
		var keys []string
		for k := range li.ws.comps {
			keys = append(keys, k)
		}
		sort.Strings(keys)
		for _, k := range keys {
			if k == "alloc" {
				continue
			}
			v1 := c.comp(st, k, li.ws.comps[k])
			v0 := c.comp(li.hstate, k, li.ws.comps[k])
			if v1 == v0 {
				continue
			}
			c.oblige("frame", fr.oblName(fmt.Sprintf("loop{%s}.frame{%s}", li.desc, k)), R, c.frameGoal(k, li.headAlloc, li.allowed[k], v1, v0))
		}
	}
	if phase == "preserve" {
		for phi, v := range phiVals {
			hv := li.phis[phi]
			if (hv.P != nil || hv.Fn != nil) && !sameVal(hv, v) {
				c.fail("loop-carried Go-side pointer %s changes in loop %s", phi.Comment, li.desc)
			}
		}
	}
	for i, inv := range fr.autoInvariants(li, phiVals) {
		c.oblige("invariant", fr.oblName(fmt.Sprintf("loop{%s}.%s.auto%d", li.desc, phase, i+1)), R, inv)
	}
	if li.ann == nil {
		return
	}
	env := fr.loopEnv(li, st, phiVals, R)
	for i, inv := range li.ann.Invs {
		label := inv.Label
		if label == "" {
			label = fmt.Sprintf("inv%d", i+1)
		}
		for k, cj := range c.splitGoal(env, inv.E) {
			nm := fmt.Sprintf("loop{%s}.%s.%s", li.desc, phase, label)
			if cj.n > 1 {
				nm = fmt.Sprintf("%s.%d", nm, k+1)
			}
			c.oblige("invariant", fr.oblName(nm), R, cj.t)
		}
	}
}

func (fr *Frame) assumeInvariants(li *loopInfo, st *State, phiVals map[*ssa.Phi]Val, R string) {
	c := fr.c
	for _, inv := range fr.autoInvariants(li, phiVals) {
		c.assume(R, inv)
	}
	if li.ann == nil {
		if c.mode != "sweep" && fr.top {
			c.note("loop %s in %s has no invariant: loop-modified state is unconstrained after it", li.desc, fr.fn.Name())
		}
		return
	}
	env := fr.loopEnv(li, st, phiVals, R)
	for _, inv := range li.ann.Invs {
		c.assume(R, env.evalBool(inv.E))
	}
}

// stripPattern removes the trigger annotation (goals are negated, patterns are irrelevant there).
func stripPattern(f string) string {
	// formulas built by frameFormula have the shape (forall (..) (! BODY :pattern (..)))
	i := strings.Index(f, "(! ")
	j := strings.LastIndex(f, " :pattern ")
	if i < 0 || j < i {
		return f
	}
	return f[:i] + f[i+3:j] + ")"
}

var _ = constant.MakeBool

// growAlloc replaces the allocation set by a fresh superset (a callee or loop body may allocate).
// Monotonicity is stated against the previous version and, as a shortcut for the solver, against the entry version.
func (c *Ctx) growAlloc(st *State) string {
	a0 := c.allocComp(st)
	a1 := c.fresh("alloc", arrSort(SRef, SBool))
	c.assume("true", fmt.Sprintf("(forall ((r Ref)) (! (=> (select %s r) (select %s r)) :pattern ((select %s r))))", a0, a1, a1))
	if ai, ok := c.initial["alloc"]; ok && ai != a0 {
		c.assume("true", fmt.Sprintf("(forall ((r Ref)) (! (=> (select %s r) (select %s r)) :pattern ((select %s r))))", ai, a1, a1))
	}
	st.heap["alloc"] = a1
	return a1
}
