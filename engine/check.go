package main

import (
	"encoding/json"
	"flag"
	"fmt"
	"os"
	"path/filepath"
	"sort"
	"strconv"
	"strings"
	"time"
)

type KnownFinding struct {
	Property   string `json:"property"`
	Obligation string `json:"obligation"`
	Status     string `json:"status"` // known | fixed
	Commit     string `json:"commit,omitempty"`
	What       string `json:"what"`
	Replay     string `json:"replay,omitempty"`
}

type KnownFile struct {
	Findings []KnownFinding `json:"findings"`
}

func loadKnown(path string) []KnownFinding {
	var kf KnownFile
	data, err := os.ReadFile(path)
	if err != nil {
		return nil
	}
	if err := json.Unmarshal(data, &kf); err != nil {
		fmt.Fprintf(os.Stderr, "known findings file unreadable: %v\n", err)
		os.Exit(2)
	}
	return kf.Findings
}

type ReplayFile struct {
	Property   string            `json:"property"`
	Obligation string            `json:"obligation"`
	Function   string            `json:"function"`
	Kind       string            `json:"kind"`
	Position   string            `json:"position"`
	Status     string            `json:"status"` // refuted | undischarged | out-of-reach
	Model      map[string]string `json:"model,omitempty"`
	Solver     string            `json:"solver,omitempty"`
	SolverOut  string            `json:"solver_output"`
	Template   string            `json:"replay_template,omitempty"`
	Replayed   bool              `json:"replayed"`
	Confirmed  bool              `json:"confirmed_on_real_code"`
	ReplayLog  string            `json:"replay_log,omitempty"`
	Repo       string            `json:"repo"`
}

func cmdCheck(args []string) int {
	fs := flag.NewFlagSet("check", flag.ExitOnError)
	repo := fs.String("repo", "/repo", "repository root")
	prop := fs.String("prop", "", "property id")
	tier := fs.String("tier", "quick", "quick|thorough")
	out := fs.String("out", "", "evidence file")
	known := fs.String("known", "/verif/known_findings.json", "known findings file")
	replays := fs.String("replays", "/verif/replays", "replay directory")
	verif := fs.String("verif", "/verif", "verif root (templates)")
	verbose := fs.Bool("v", false, "verbose")
	fs.Parse(args)
	if e := os.Getenv("VERIF_TIER"); e == "quick" || e == "thorough" {
		*tier = e
	}
	seed := 0
	if e := os.Getenv("VERIF_SEED"); e != "" {
		seed, _ = strconv.Atoi(e)
	}
	t0 := time.Now()
	timeout := 20.0
	if *tier == "thorough" {
		timeout = 60.0
	}
	w, err := loadWorld(*repo, nil)
	if err != nil {
		fmt.Fprintln(os.Stderr, "load failed:", err)
		return 2
	}
	loadSecs := time.Since(t0).Seconds()
	// functions under contract serving the property
	var keys []string
	for k, fc := range w.contracts {
		if fc.Extern {
			continue
		}
		for _, p := range fc.Serves {
			if p == *prop {
				keys = append(keys, k)
			}
		}
	}
	sort.Strings(keys)
	var results []*FuncResult
	var bindErrs []string
	for _, k := range keys {
		fc := w.contracts[k]
		if fc.IfaceMethod || w.fnByKey[k] == nil {
			if isIfaceContract(w, fc) {
				continue
			}
			bindErrs = append(bindErrs, k)
			continue
		}
		res := w.verifyFunc(w.fnByKey[k], fc, "contract", nil)
		results = append(results, res)
	}
	if tr := w.tagObligations(*prop); len(tr.Obls) > 0 {
		results = append(results, tr)
	}
	if tr := w.writersObligations(*prop); len(tr.Obls) > 0 {
		results = append(results, tr)
	}
	if tr := w.confinedObligations(*prop); len(tr.Obls) > 0 {
		results = append(results, tr)
	}
	dir, _ := os.MkdirTemp("", "govc-")
	defer os.RemoveAll(dir)
	var assumptions []string
	{
		mine, elsewhere := map[string]bool{}, map[string]string{}
		for _, k := range loadKnown(*known) {
			if k.Status != "known" {
				continue
			}
			if k.Property == *prop {
				noRetry[k.Obligation] = true
				mine[k.Obligation] = true
			} else {
				elsewhere[k.Obligation] = k.Property
			}
		}
		// an obligation that is an open known finding of another property is decided and reported by that property's
		// check: it is not solved again here
		for _, r := range results {
			var keep []*Obl
			for _, o := range r.Obls {
				if other, ok := elsewhere[o.Name]; ok && !mine[o.Name] {
					assumptions = append(assumptions, fmt.Sprintf("obligation %s is not counted here: it is an open known finding of property %s and is reported by that property's check", o.Name, other))
					continue
				}
				keep = append(keep, o)
			}
			r.Obls = keep
		}
	}
	verdicts := dischargeAll(results, dir, timeout, *tier == "thorough", workers())
	kfs := loadKnown(*known)
	knownBy := map[string]KnownFinding{}
	// obligations recorded as open findings of another property are reported there, not here
	knownElsewhere := map[string]string{}
	for _, k := range kfs {
		if k.Property != *prop && k.Status == "known" {
			knownElsewhere[k.Obligation] = k.Property
			noRetry[k.Obligation] = true
		}
	}
	for _, k := range kfs {
		if k.Property == *prop && k.Status == "known" {
			knownBy[k.Obligation] = k
		}
	}
	repdir := filepath.Join(*replays, *prop)
	os.RemoveAll(repdir)
	nviol := 0
	nobl, ndis := 0, 0
	bySolver := map[string]int{}
	ncached := 0
	solverSecs := 0.0
	var samples []interface{}
	var knownHit []string
	var slowest []string
	type vrow struct {
		name string
		t    float64
	}
	var rows []vrow
	var violList []map[string]interface{}
	report := func(rf *ReplayFile) {
		os.MkdirAll(repdir, 0o755)
		path := filepath.Join(repdir, sanitizeFile(rf.Obligation)+".json")
		data, _ := json.MarshalIndent(rf, "", " ")
		os.WriteFile(path, data, 0o644)
		suffix := ""
		if !rf.Confirmed {
			suffix = " no-failing-input-found"
		}
		fmt.Printf("VIOLATION property=%s replay=%s obligation=%s%s\n", *prop, path, rf.Obligation, suffix)
		nviol++
		violList = append(violList, map[string]interface{}{"obligation": rf.Obligation, "status": rf.Status, "replay": path, "confirmed_on_real_code": rf.Confirmed, "solver_detail": truncate(rf.SolverOut, 600)})
		// keep a history of every violation ever reported (diagnosis of flaky obligations); not part of the evidence
		if f, err := os.OpenFile(filepath.Join(*verif, "replays", "history.log"), os.O_APPEND|os.O_CREATE|os.O_WRONLY, 0o644); err == nil {
			fmt.Fprintf(f, "%s %s %s %s %s\n", time.Now().UTC().Format(time.RFC3339), *prop, rf.Status, rf.Obligation, truncate(strings.ReplaceAll(rf.SolverOut, "\n", " "), 300))
			f.Close()
		}
	}
	for _, r := range results {
		if r.Failed != "" {
			name := r.Fn + "#out-of-reach"
			if k, ok := knownBy[name]; ok {
				fmt.Printf("KNOWN-FINDING: property=%s %s %s\n", *prop, name, k.What)
				knownHit = append(knownHit, name)
				continue
			}
			report(&ReplayFile{Property: *prop, Obligation: name, Function: r.Fn, Status: "out-of-reach", SolverOut: r.Failed, Repo: *repo})
		}
	}
	for _, k := range bindErrs {
		report(&ReplayFile{Property: *prop, Obligation: k + "#binding", Function: k, Status: "out-of-reach",
			SolverOut: "contract names a function that does not exist in the current tree", Repo: *repo})
	}
	resultOf := map[*Obl]*FuncResult{}
	for _, r := range results {
		for _, o := range r.Obls {
			resultOf[o] = r
		}
	}
	for _, v := range verdicts {
		o := v.Obl
		bySolver[v.Solver]++
		if v.Cached {
			ncached++
		}
		solverSecs += v.Time
		rows = append(rows, vrow{o.Name, v.Time})
		if o.Kind == "cover" {
			if v.Status == "refuted" {
				report(&ReplayFile{Property: *prop, Obligation: o.Name, Function: o.Fn, Kind: o.Kind, Status: "refuted",
					SolverOut: "vacuity: the function cannot return under its preconditions (contradictory requires or assumptions)", Repo: *repo})
			}
			continue
		}
		if other, ok := knownElsewhere[o.Name]; ok {
			if _, mine := knownBy[o.Name]; !mine {
				if v.Status != "proved" {
					assumptions = append(assumptions, fmt.Sprintf("obligation %s is not counted here: it is an open known finding of property %s and is reported by that property's check", o.Name, other))
					continue
				}
			}
		}
		if k, ok := knownBy[o.Name]; ok {
			if v.Status != "proved" {
				fmt.Printf("KNOWN-FINDING: property=%s %s %s\n", *prop, o.Name, k.What)
				knownHit = append(knownHit, o.Name)
			} else {
				knownHit = append(knownHit, o.Name+" (stale: obligation now passes)")
			}
			continue
		}
		nobl++
		if v.Status == "proved" {
			ndis++
			if len(samples) < 6 && !v.Trivial {
				samples = append(samples, map[string]interface{}{"obligation": o.Name, "kind": o.Kind, "verdict": "proved", "solver": v.Solver, "seconds": round2(v.Time), "at": o.Pos.String()})
			}
			continue
		}
		rf := &ReplayFile{Property: *prop, Obligation: o.Name, Function: o.Fn, Kind: o.Kind, Position: o.Pos.String(), Model: v.Model,
			Solver: v.Solver, SolverOut: truncate(v.Detail, 4000), Repo: *repo}
		if o.Detail != "" {
			rf.SolverOut = o.Detail + "\n" + rf.SolverOut
		}
		if v.Status == "refuted" {
			rf.Status = "refuted"
		} else {
			rf.Status = "undischarged"
		}
		// replay the model (or, without a model, the hand-written history for this obligation) on the real code
		runReplay(*verif, *repo, rf)
		report(rf)
		if *verbose {
			fmt.Fprintf(os.Stderr, "  %s: %s %s\n", v.Status, o.Name, firstLines(v.Detail, 2))
		}
	}
	sort.Slice(rows, func(i, j int) bool { return rows[i].t > rows[j].t })
	for i := 0; i < len(rows) && i < 5; i++ {
		slowest = append(slowest, fmt.Sprintf("%s %.1fs", rows[i].name, rows[i].t))
	}
	// evidence
	var fns []string
	notes := map[string]bool{}
	externs := map[string]bool{}
	entry := map[string]bool{}
	ninstr := 0
	for _, r := range results {
		fns = append(fns, r.Fn)
		ninstr += r.NumInstrs
		for _, n := range r.Notes {
			notes[n] = true
		}
		for _, e := range r.Externs {
			externs[e] = true
		}
		for _, e := range r.EntryAsm {
			entry[e] = true
		}
	}
	for _, e := range sortedSet(entry) {
		assumptions = append(assumptions, "entry assumption: "+e)
	}
	for _, e := range sortedSet(externs) {
		assumptions = append(assumptions, "assumed extern contract: "+e)
	}
	for _, e := range sortedSet(notes) {
		assumptions = append(assumptions, "modelling: "+e)
	}
	assumptions = append(assumptions,
		"integers are exact fixed-width bit-vectors; every slice/map/string length is assumed < 2^47",
		"partial correctness only: termination, memory exhaustion and timing are not verified",
		"go/ssa lowering of Go (x/tools v0.29.0) and the SMT solvers are trusted")
	level, explanation := "proof", ""
	nsyn := 0
	for _, v := range verdicts {
		switch v.Obl.Kind {
		case "tag", "writers", "confined":
			nsyn++
		}
	}
	nconf := 0
	for _, v := range verdicts {
		if v.Obl.Kind == "confined" {
			nconf++
		}
	}
	if nconf > 0 || (nsyn > 0 && nsyn == len(verdicts)) {
		// a property that rests on ownership obligations (goroutine confinement, single-writer lists): those are decided by
		// the analysis over go/ssa, not by a solver - the level is "other", not "proof", whatever else is discharged by SMT
		level = "other"
		explanation = fmt.Sprintf("%d of the %d obligations of this run are ownership obligations (goroutine confinement of declared fields and functions, complete writer lists) decided by the engine's analysis over go/ssa and the module's call graph, without an SMT query; the others are contract obligations discharged by the solvers as for the other properties. The notes under assumptions state the roots found and the approximations of the call graph.", nsyn, len(verdicts))
		var syn []interface{}
		for _, v := range verdicts {
			switch v.Obl.Kind {
			case "tag", "writers", "confined":
				syn = append(syn, map[string]interface{}{"obligation": v.Obl.Name, "kind": v.Obl.Kind, "verdict": v.Status, "detail": v.Obl.Detail, "examined": v.Obl.Info})
			}
		}
		samples = append(syn, samples...)
	}
	if len(samples) == 0 {
		samples = append(samples, map[string]interface{}{"note": "no non-trivial obligation discharged in this run"})
	}
	ev := map[string]interface{}{
		"property_id": *prop,
		"tier":        *tier,
		"seed":        seed,
		"level":       level,
		"coverage": map[string]interface{}{
			"obligations":              nobl,
			"discharged":               ndis,
			"checker_cmd":              fmt.Sprintf("/verif/bin/govc check -repo %s -prop %s -tier %s", *repo, *prop, *tier),
			"trusted_base":             []string{"golang.org/x/tools/go/ssa v0.29.0 (SSA construction)", "z3 5.1.0 (z3-new)", "cvc5 1.0.3", "z3 4.8.12", "govc SSA->SMT translator (/verif/engine)", "assumed extern contracts in /verif/contracts/extern"},
			"functions_under_contract": fns,
			"ssa_instructions":         ninstr,
			"discharged_by":            bySolver,
			"verdict_cache":            fmt.Sprintf("%d of the discharged obligations reused an unsat verdict remembered from an earlier run under the SHA-256 of the identical generated SMT script (entries \"cache:<solver>\"); GOVC_CACHE=off re-solves everything", ncached),
			"solver_seconds_total":     round2(solverSecs),
			"load_seconds":             round2(loadSecs),
			"slowest":                  slowest,
			"samples":                  samples,
			"known_findings_hit":       knownHit,
			"per_obligation_timeout_s": timeout,
			"explanation":              explanation,
		},
		"assumptions":    assumptions,
		"wall_s":         round2(time.Since(t0).Seconds()),
		"violations":     nviol,
		"violation_list": violList,
	}
	if *out != "" {
		os.MkdirAll(filepath.Dir(*out), 0o755)
		data, _ := json.MarshalIndent(ev, "", " ")
		if err := os.WriteFile(*out, data, 0o644); err != nil {
			fmt.Fprintln(os.Stderr, err)
			return 2
		}
	}
	fmt.Printf("property %s: %d obligations, %d discharged, %d violations, %d known findings, %d functions, %.1fs\n",
		*prop, nobl, ndis, nviol, len(knownHit), len(fns), time.Since(t0).Seconds())
	if nobl == 0 && len(knownHit) == 0 {
		fmt.Printf("VIOLATION property=%s replay=none no obligations were generated (vacuous check) no-failing-input-found\n", *prop)
		return 1
	}
	if nviol > 0 {
		return 1
	}
	return 0
}

func isIfaceContract(w *World, fc *FuncContract) bool {
	if fc.Recv == "" {
		return false
	}
	for _, p := range w.byName[fc.PkgName] {
		if p.Types == nil {
			continue
		}
		if o := p.Types.Scope().Lookup(fc.Recv); o != nil {
			if _, ok := o.Type().Underlying().(interface{ NumMethods() int }); ok {
				return true
			}
		}
	}
	return false
}

func sortedSet(m map[string]bool) []string {
	var out []string
	for k := range m {
		out = append(out, k)
	}
	sort.Strings(out)
	return out
}

func round2(f float64) float64 { return float64(int(f*100+0.5)) / 100 }

func truncate(s string, n int) string {
	if len(s) > n {
		return s[:n] + "..."
	}
	return s
}

func sanitizeFile(s string) string {
	r := strings.NewReplacer("/", "_", " ", "_", "{", "(", "}", ")", "|", "_", "*", "P", "#", "-", ":", "_")
	s = r.Replace(s)
	if len(s) > 150 {
		s = s[:120] + fmt.Sprintf("_%x", hashStr(s))
	}
	return s
}
