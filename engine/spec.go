package main

import (
	"fmt"
	"math/big"
	"os"
	"strings"
	"unicode"
)

// ---------------------------------------------------------------------------
// Spec AST

type Expr interface{}

type (
	EIdent struct{ Name string }
	ELit   struct {
		Int  *big.Int
		Bool *bool
		Str  *string
		Nil  bool
	}
	EBin struct {
		Op   string
		X, Y Expr
	}
	EUn struct {
		Op string
		X  Expr
	}
	ESel struct {
		X    Expr
		Name string
	}
	EIndex struct{ X, I Expr }
	ESlice struct{ X, Lo, Hi Expr }
	ECall  struct {
		Fun  string
		Pkg  string
		Args []Expr
		Recv Expr // method call on a value (deterministic extern accessor)
	}
	EOld    struct{ X Expr }
	EBefore struct{ X Expr } // value in the state at entry of the innermost annotated loop
	EQuant  struct {
		Forall bool
		Vars   []Binder
		Body   Expr
	}
	EConv struct {
		T *TypeExpr
		X Expr
	}
	ETypeAssert struct {
		X Expr
		T *TypeExpr
	}
	ETypeIs struct {
		X Expr
		T *TypeExpr
	}
	EIte struct{ C, A, B Expr }
)

type Binder struct {
	Name string
	T    *TypeExpr
}

type TypeExpr struct {
	Kind string // named, ptr, slice, map, set, tuple
	Pkg  string
	Name string
	Elem *TypeExpr
	Key  *TypeExpr
	Flds []*TypeExpr
}

func (t *TypeExpr) String() string {
	switch t.Kind {
	case "named":
		if t.Pkg != "" {
			return t.Pkg + "." + t.Name
		}
		return t.Name
	case "ptr":
		return "*" + t.Elem.String()
	case "slice":
		return "[]" + t.Elem.String()
	case "map":
		return "map[" + t.Key.String() + "]" + t.Elem.String()
	case "set":
		return "set[" + t.Key.String() + "]"
	}
	return "?"
}

type Clause struct {
	Label string
	E     Expr
	Text  string
	Line  int
}

type LoopAnn struct {
	Desc        string
	Invs        []Clause
	Modifies    []Expr
	HasModifies bool
	Line        int
	matched     bool
	inHelper    bool // matched a loop of a contract-less helper expanded in place
}

type CallAnn struct {
	Callee  string // textual name, e.g. "gtp5gnl.CreateQEROID" or "s.rnode.driver.CreateFAR" suffix match
	Ordinal int    // 0 = all
	Text    string // ~text: only call sites whose source text contains this token (robust against reordering)
	After   bool
	Asserts []Clause
	Assumes []Clause
	Reached []Clause // reached when <cond>: whenever the enclosing iteration (or the function) runs and cond holds, control reaches this call
	Unfolds []Clause // opaque predicate instances whose definition is made available at this point
	Folds   []Clause // opaque predicate instances established at this point by proving their definition
	Ghosts  []GhostUpd
	Line    int
	matched bool
	seen    int
}

// OwnsClause: `owns X by Y [when C]` — the function allocates X (obligation: X is fresh) and the uninterpreted,
// state-independent owner function is fixed to ownerOf(X) == Y (assumed; callers see it as a postcondition).
type OwnsClause struct {
	X, Y, When Expr
	Text       string
	Line       int
}

type GhostUpd struct {
	Name string
	E    Expr
	Text string
}

type FuncContract struct {
	File        string
	Line        int
	PkgName     string
	Recv        string // receiver type name, "" for plain functions
	RecvPtr     bool
	RecvName    string
	Name        string
	Params      []string
	Results     []string
	Requires    []Clause
	Ensures     []Clause
	Modifies    []Expr
	ModText     []string
	HasModifies bool
	ModAll      bool
	Serves      []string
	Loops       []*LoopAnn
	Calls       []*CallAnn
	Flags       map[string]bool
	ExitSets    []GhostUpd          // ghost updates applied when the function returns (exit set G := e): the function defines the ghost event
	Locals      []LocalEntry        // the function's named locals when the contract was written (declaration order): survives renames
	Verified    bool                // contract on a dependency function that is verified, not assumed
	UsesHide    map[string][]string // postcondition label -> opaque predicates kept opaque while proving it
	Uses        map[string][]string // postcondition label -> labels of postconditions assumed while proving it
	Dispatch    map[string][]string // interface type key -> allowed dynamic types
	Cases       []Clause            // case split on entry values: every obligation is discharged per case
	Reveal      map[string]bool     // opaque predicates whose definition is visible while verifying this function
	Owns        []OwnsClause        // ghost ownership assignments for objects allocated by this function
	Extern      bool
	IfaceMethod bool
	Sig         string
}

func (f *FuncContract) Key() string {
	if f.Recv != "" {
		return f.PkgName + "." + f.Recv + "." + f.Name
	}
	return f.PkgName + "." + f.Name
}

// LocalEntry: one named local variable of a function (name and type as written by types.TypeString).
type LocalEntry struct {
	Name string
	Type string
}

type GhostDecl struct {
	Name string
	T    *TypeExpr
}

type UFuncDecl struct {
	Name   string
	Params []*TypeExpr
	Ret    *TypeExpr
}

type PureDecl struct {
	Opaque bool
	Name   string
	Params []Binder
	Ret    *TypeExpr // nil for pred (Bool)
	Body   Expr
	Text   string
}

// TagDecl: a struct field's tag is part of the specification (validation rules interpreted by a dependency).
type TagDecl struct {
	Path   string // pkg.Type.Field
	Serves []string
	Want   string
	Line   int
}

// WritersDecl: the complete list of functions that may store to a struct field (or, with the suffix "[]", update or
// delete elements of maps of that field's type).  A syntactic obligation over the SSA of every function of the module:
// it closes the hole modular verification leaves open - a function without a contract that writes verified state.
type WritersDecl struct {
	Path    string // pkg.Type.Field or pkg.Type.Field[]
	Serves  []string
	Allowed []string
	Line    int
}

type SpecFile struct {
	Confined []ConfinedDecl
	Writers  []WritersDecl
	Tags     []TagDecl
	File     string
	PkgName  string
	Ghosts   []GhostDecl
	UFuncs   []UFuncDecl
	Pures    []*PureDecl
	Funcs    []*FuncContract
	Axioms   []Clause
	Lemmas   []Clause
	Types    map[string][]Binder // spec-level tuple types
	Determ   []string            // receivers / functions whose contract-less extern methods are deterministic
}

// ---------------------------------------------------------------------------
// Lexer

type tok struct {
	kind string // id, num, str, op, eof
	s    string
	n    *big.Int
}

type lexer struct {
	toks []tok
	pos  int
	src  string
}

var ops3 = []string{"<==>", "==>", "&^", "::", ":=", "&&", "||", "==", "!=", "<=", ">=", "<<", ">>"}

func lex(s string) ([]tok, error) {
	var out []tok
	i := 0
	for i < len(s) {
		ch := s[i]
		if ch == ' ' || ch == '\t' || ch == '\n' || ch == '\r' {
			i++
			continue
		}
		if unicode.IsLetter(rune(ch)) || ch == '_' {
			j := i
			for j < len(s) && (unicode.IsLetter(rune(s[j])) || unicode.IsDigit(rune(s[j])) || s[j] == '_' || s[j] == '$') {
				j++
			}
			out = append(out, tok{kind: "id", s: s[i:j]})
			i = j
			continue
		}
		if ch >= '0' && ch <= '9' {
			j := i
			for j < len(s) && (unicode.IsLetter(rune(s[j])) || unicode.IsDigit(rune(s[j])) || s[j] == '_') {
				j++
			}
			n, ok := new(big.Int).SetString(strings.ReplaceAll(s[i:j], "_", ""), 0)
			if !ok {
				return nil, fmt.Errorf("bad number %q", s[i:j])
			}
			out = append(out, tok{kind: "num", s: s[i:j], n: n})
			i = j
			continue
		}
		if ch == '"' {
			j := i + 1
			for j < len(s) && s[j] != '"' {
				if s[j] == '\\' {
					j++
				}
				j++
			}
			if j >= len(s) {
				return nil, fmt.Errorf("unterminated string")
			}
			out = append(out, tok{kind: "str", s: s[i+1 : j]})
			i = j + 1
			continue
		}
		matched := false
		for _, op := range ops3 {
			if strings.HasPrefix(s[i:], op) {
				out = append(out, tok{kind: "op", s: op})
				i += len(op)
				matched = true
				break
			}
		}
		if matched {
			continue
		}
		out = append(out, tok{kind: "op", s: string(ch)})
		i++
	}
	out = append(out, tok{kind: "eof"})
	return out, nil
}

type parser struct {
	toks []tok
	pos  int
	src  string
}

func (p *parser) peek() tok { return p.toks[p.pos] }
func (p *parser) next() tok {
	t := p.toks[p.pos]
	if p.pos < len(p.toks)-1 {
		p.pos++
	}
	return t
}
func (p *parser) isOp(s string) bool { t := p.peek(); return t.kind == "op" && t.s == s }
func (p *parser) isID(s string) bool { t := p.peek(); return t.kind == "id" && t.s == s }
func (p *parser) accept(s string) bool {
	if p.isOp(s) {
		p.next()
		return true
	}
	return false
}
func (p *parser) expect(s string) {
	if !p.accept(s) {
		panic(fmt.Errorf("expected %q, got %q in %q", s, p.peek().s, p.src))
	}
}
func (p *parser) ident() string {
	t := p.next()
	if t.kind != "id" {
		panic(fmt.Errorf("expected identifier, got %q in %q", t.s, p.src))
	}
	return t.s
}

func (p *parser) parseType() *TypeExpr {
	if p.accept("*") {
		return &TypeExpr{Kind: "ptr", Elem: p.parseType()}
	}
	if p.accept("[") {
		p.expect("]")
		return &TypeExpr{Kind: "slice", Elem: p.parseType()}
	}
	name := p.ident()
	if name == "map" {
		p.expect("[")
		k := p.parseType()
		p.expect("]")
		return &TypeExpr{Kind: "map", Key: k, Elem: p.parseType()}
	}
	if name == "set" {
		p.expect("[")
		k := p.parseType()
		p.expect("]")
		return &TypeExpr{Kind: "set", Key: k}
	}
	if name == "struct" && p.isOp("{") {
		p.next()
		p.expect("}")
		return &TypeExpr{Kind: "named", Name: "struct{}"}
	}
	if name == "interface" && p.isOp("{") {
		p.next()
		p.expect("}")
		return &TypeExpr{Kind: "named", Name: "interface{}"}
	}
	if p.isOp(".") {
		p.next()
		n2 := p.ident()
		return &TypeExpr{Kind: "named", Pkg: name, Name: n2}
	}
	return &TypeExpr{Kind: "named", Name: name}
}

func (p *parser) parseExpr() Expr { return p.parseQuant() }

func (p *parser) parseQuant() Expr {
	if p.isID("forall") || p.isID("exists") {
		fa := p.next().s == "forall"
		var vars []Binder
		for {
			var names []string
			names = append(names, p.ident())
			for p.accept(",") {
				names = append(names, p.ident())
			}
			t := p.parseType()
			for _, n := range names {
				vars = append(vars, Binder{n, t})
			}
			if p.accept(";") {
				continue
			}
			break
		}
		p.expect("::")
		body := p.parseQuant()
		return &EQuant{Forall: fa, Vars: vars, Body: body}
	}
	return p.parseIff()
}

func (p *parser) parseIff() Expr {
	x := p.parseImp()
	for p.isOp("<==>") {
		p.next()
		y := p.parseImp()
		x = &EBin{"<==>", x, y}
	}
	return x
}

func (p *parser) parseImp() Expr {
	x := p.parseOr()
	if p.isOp("==>") {
		p.next()
		y := p.parseImpRHS()
		return &EBin{"==>", x, y}
	}
	return x
}

func (p *parser) parseImpRHS() Expr {
	if p.isID("forall") || p.isID("exists") {
		return p.parseQuant()
	}
	return p.parseImp()
}

func (p *parser) parseOr() Expr {
	x := p.parseAnd()
	for p.isOp("||") {
		p.next()
		x = &EBin{"||", x, p.parseAnd()}
	}
	return x
}

func (p *parser) parseAnd() Expr {
	x := p.parseCmp()
	for p.isOp("&&") {
		p.next()
		var y Expr
		if p.isID("forall") || p.isID("exists") {
			y = p.parseQuant()
		} else {
			y = p.parseCmp()
		}
		x = &EBin{"&&", x, y}
	}
	return x
}

func (p *parser) parseCmp() Expr {
	x := p.parseAdd()
	t := p.peek()
	if t.kind == "op" {
		switch t.s {
		case "==", "!=", "<", "<=", ">", ">=":
			p.next()
			return &EBin{t.s, x, p.parseAdd()}
		}
	}
	if t.kind == "id" && t.s == "in" {
		p.next()
		return &EBin{"in", x, p.parseAdd()}
	}
	return x
}

func (p *parser) parseAdd() Expr {
	x := p.parseMul()
	for {
		t := p.peek()
		if t.kind == "op" && (t.s == "+" || t.s == "-" || t.s == "|" || t.s == "^") {
			p.next()
			x = &EBin{t.s, x, p.parseMul()}
			continue
		}
		return x
	}
}

func (p *parser) parseMul() Expr {
	x := p.parseUnary()
	for {
		t := p.peek()
		if t.kind == "op" && (t.s == "*" || t.s == "/" || t.s == "%" || t.s == "<<" || t.s == ">>" || t.s == "&" || t.s == "&^") {
			p.next()
			x = &EBin{t.s, x, p.parseUnary()}
			continue
		}
		return x
	}
}

func (p *parser) parseUnary() Expr {
	t := p.peek()
	if t.kind == "op" && (t.s == "!" || t.s == "-" || t.s == "^") {
		p.next()
		return &EUn{t.s, p.parseUnary()}
	}
	return p.parsePostfix()
}

var convTypes = map[string]bool{"uint8": true, "uint16": true, "uint32": true, "uint64": true, "int8": true, "int16": true, "int32": true,
	"int64": true, "int": true, "uint": true, "byte": true, "bool": true}

func (p *parser) parsePostfix() Expr {
	x := p.parsePrimary()
	for {
		switch {
		case p.isOp("."):
			p.next()
			if p.accept("(") {
				t := p.parseType()
				p.expect(")")
				x = &ETypeAssert{x, t}
				continue
			}
			var name string
			if p.isOp("*") {
				p.next()
				name = "*"
			} else {
				name = p.ident()
			}
			// qualified call or constant: pkg.Name(...)
			if id, ok := x.(*EIdent); ok && p.isOp("(") {
				p.next()
				args := p.parseArgs()
				x = &ECall{Pkg: id.Name, Fun: name, Args: args}
				continue
			}
			if p.isOp("(") {
				p.next()
				args := p.parseArgs()
				x = &ECall{Recv: x, Fun: name, Args: args}
				continue
			}
			x = &ESel{x, name}
		case p.isOp("["):
			p.next()
			if p.accept(":") {
				hi := p.parseExpr()
				p.expect("]")
				x = &ESlice{x, nil, hi}
				continue
			}
			i := p.parseExpr()
			if p.accept(":") {
				var hi Expr
				if !p.isOp("]") {
					hi = p.parseExpr()
				}
				p.expect("]")
				x = &ESlice{x, i, hi}
				continue
			}
			p.expect("]")
			x = &EIndex{x, i}
		default:
			return x
		}
	}
}

func (p *parser) parseArgs() []Expr {
	var args []Expr
	if p.accept(")") {
		return args
	}
	for {
		args = append(args, p.parseExpr())
		if p.accept(",") {
			continue
		}
		p.expect(")")
		return args
	}
}

func (p *parser) parsePrimary() Expr {
	t := p.next()
	switch t.kind {
	case "num":
		return &ELit{Int: t.n}
	case "str":
		s := t.s
		return &ELit{Str: &s}
	case "op":
		if t.s == "(" {
			// parenthesised expression or conversion to pointer type (*T)(x) is not supported
			x := p.parseExpr()
			p.expect(")")
			return x
		}
		if t.s == "*" {
			// pointer type conversion / deref not supported in spec; treat *x as x (auto-deref)
			return p.parseUnary()
		}
	case "id":
		switch t.s {
		case "true", "false":
			b := t.s == "true"
			return &ELit{Bool: &b}
		case "nil":
			return &ELit{Nil: true}
		case "old":
			p.expect("(")
			x := p.parseExpr()
			p.expect(")")
			return &EOld{x}
		case "before":
			p.expect("(")
			x := p.parseExpr()
			p.expect(")")
			return &EBefore{x}
		case "ite":
			p.expect("(")
			c := p.parseExpr()
			p.expect(",")
			a := p.parseExpr()
			p.expect(",")
			b := p.parseExpr()
			p.expect(")")
			return &EIte{c, a, b}
		case "typeis":
			p.expect("(")
			x := p.parseExpr()
			p.expect(",")
			ty := p.parseType()
			p.expect(")")
			return &ETypeIs{x, ty}
		}
		if p.isOp("(") {
			p.next()
			if convTypes[t.s] {
				x := p.parseExpr()
				p.expect(")")
				return &EConv{&TypeExpr{Kind: "named", Name: t.s}, x}
			}
			args := p.parseArgs()
			return &ECall{Fun: t.s, Args: args}
		}
		return &EIdent{t.s}
	}
	panic(fmt.Errorf("unexpected token %q in %q", t.s, p.src))
}

func parseExprString(s string) (e Expr, err error) {
	defer func() {
		if r := recover(); r != nil {
			if pe, ok := r.(error); ok {
				err = pe
				return
			}
			panic(r)
		}
	}()
	toks, err := lex(s)
	if err != nil {
		return nil, err
	}
	p := &parser{toks: toks, src: s}
	e = p.parseExpr()
	if p.peek().kind != "eof" {
		return nil, fmt.Errorf("trailing tokens at %q in %q", p.peek().s, s)
	}
	return e, nil
}

// ---------------------------------------------------------------------------
// Contract file reader

var topKeywords = map[string]bool{"opaque": true, "deterministic": true, "func": true, "ghost": true, "ufunc": true, "pure": true, "pred": true, "axiom": true, "lemma": true, "type": true, "extern": true, "tag": true, "verified": true, "writers": true, "confined": true, "callers": true}
var clauseKeywords = map[string]bool{"unfold": true, "fold": true, "owns": true, "reveal": true, "cases": true, "dispatch": true, "requires": true, "ensures": true, "modifies": true, "serves": true, "loop": true, "invariant": true,
	"at": true, "after": true, "assert": true, "assume": true, "flag": true, "set": true, "uses": true, "locals": true, "reached": true, "exit": true}

type rawLine struct {
	text string
	line int
}

func firstWord(s string) string {
	s = strings.TrimSpace(s)
	i := 0
	for i < len(s) && (unicode.IsLetter(rune(s[i])) || s[i] == '_') {
		i++
	}
	return s[:i]
}

func stripLabel(s string) (label, rest string) {
	s = strings.TrimSpace(s)
	if strings.HasPrefix(s, "[") {
		if j := strings.Index(s, "]"); j > 0 {
			return strings.TrimSpace(s[1:j]), strings.TrimSpace(s[j+1:])
		}
	}
	return "", s
}

// readSpecFile reads the //@ lines of a Go comment file (or all lines of a .spec file).
func readSpecFile(path string, isSpec bool) (*SpecFile, error) {
	data, err := os.ReadFile(path)
	if err != nil {
		return nil, err
	}
	sf := &SpecFile{File: path, Types: map[string][]Binder{}}
	var lines []rawLine
	for i, l := range strings.Split(string(data), "\n") {
		t := strings.TrimSpace(l)
		if !isSpec {
			if strings.HasPrefix(t, "package ") {
				sf.PkgName = strings.TrimSpace(strings.TrimPrefix(t, "package "))
				continue
			}
			if !strings.HasPrefix(t, "//@") {
				continue
			}
			t = strings.TrimPrefix(t, "//@")
		} else {
			if strings.HasPrefix(t, "package ") {
				sf.PkgName = strings.TrimSpace(strings.TrimPrefix(t, "package "))
				continue
			}
		}
		if j := strings.Index(t, "//"); j >= 0 {
			t = t[:j]
		}
		if strings.TrimSpace(t) == "" {
			continue
		}
		lines = append(lines, rawLine{t, i + 1})
	}
	// group into clauses: a clause starts at a line whose first word is a keyword
	var groups []rawLine
	for _, l := range lines {
		w := firstWord(l.text)
		if topKeywords[w] || clauseKeywords[w] {
			groups = append(groups, rawLine{strings.TrimSpace(l.text), l.line})
		} else {
			if len(groups) == 0 {
				return nil, fmt.Errorf("%s:%d: continuation line without clause", path, l.line)
			}
			groups[len(groups)-1].text += " " + strings.TrimSpace(l.text)
		}
	}
	var cur *FuncContract
	var curLoop *LoopAnn
	var curCall *CallAnn
	perr := func(g rawLine, err error) error { return fmt.Errorf("%s:%d: %v", path, g.line, err) }
	for _, g := range groups {
		w := firstWord(g.text)
		rest := strings.TrimSpace(g.text[len(w):])
		switch w {
		case "extern":
			// "extern func ..." marks an assumed contract
			w2 := firstWord(rest)
			if w2 != "func" {
				return nil, perr(g, fmt.Errorf("extern must be followed by func"))
			}
			fc, err := parseFuncHeader(strings.TrimSpace(rest[len(w2):]))
			if err != nil {
				return nil, perr(g, err)
			}
			fc.Extern = true
			fc.File, fc.Line = path, g.line
			if fc.PkgName == "" {
				fc.PkgName = sf.PkgName
			}
			sf.Funcs = append(sf.Funcs, fc)
			cur, curLoop, curCall = fc, nil, nil
		case "verified":
			// "verified func ..." in a spec file: a contract on a dependency function that is NOT assumed - the engine
			// verifies the dependency's own code against it
			w2 := firstWord(rest)
			if w2 != "func" {
				return nil, perr(g, fmt.Errorf("verified must be followed by func"))
			}
			fc, err := parseFuncHeader(strings.TrimSpace(rest[len(w2):]))
			if err != nil {
				return nil, perr(g, err)
			}
			fc.Verified = true
			fc.File, fc.Line = path, g.line
			if fc.PkgName == "" {
				fc.PkgName = sf.PkgName
			}
			sf.Funcs = append(sf.Funcs, fc)
			cur, curLoop, curCall = fc, nil, nil
		case "func":
			fc, err := parseFuncHeader(rest)
			if err != nil {
				return nil, perr(g, err)
			}
			fc.File, fc.Line = path, g.line
			if fc.PkgName == "" {
				fc.PkgName = sf.PkgName
			}
			fc.Extern = isSpec
			sf.Funcs = append(sf.Funcs, fc)
			cur, curLoop, curCall = fc, nil, nil
		case "deterministic":
			for _, f := range strings.Fields(rest) {
				sf.Determ = append(sf.Determ, f)
			}
			cur = nil
		case "ghost":
			toks, err := lex(rest)
			if err != nil {
				return nil, perr(g, err)
			}
			p := &parser{toks: toks, src: rest}
			var gd GhostDecl
			if e := catch(func() { gd.Name = p.ident(); gd.T = p.parseType() }); e != nil {
				return nil, perr(g, e)
			}
			sf.Ghosts = append(sf.Ghosts, gd)
			cur = nil
		case "type":
			// type Name (f1 T1, f2 T2)
			toks, err := lex(rest)
			if err != nil {
				return nil, perr(g, err)
			}
			p := &parser{toks: toks, src: rest}
			if e := catch(func() {
				name := p.ident()
				p.expect("(")
				var flds []Binder
				for !p.isOp(")") {
					n := p.ident()
					t := p.parseType()
					flds = append(flds, Binder{n, t})
					p.accept(",")
				}
				p.expect(")")
				sf.Types[name] = flds
			}); e != nil {
				return nil, perr(g, e)
			}
			cur = nil
		case "ufunc":
			toks, err := lex(rest)
			if err != nil {
				return nil, perr(g, err)
			}
			p := &parser{toks: toks, src: rest}
			var ud UFuncDecl
			if e := catch(func() {
				ud.Name = p.ident()
				p.expect("(")
				for !p.isOp(")") {
					ud.Params = append(ud.Params, p.parseType())
					p.accept(",")
				}
				p.expect(")")
				ud.Ret = p.parseType()
			}); e != nil {
				return nil, perr(g, e)
			}
			sf.UFuncs = append(sf.UFuncs, ud)
			cur = nil
		case "pure", "pred", "opaque":
			opaque := false
			if w == "opaque" {
				opaque = true
				w2 := firstWord(rest)
				if w2 != "pred" {
					return nil, perr(g, fmt.Errorf("opaque must be followed by pred"))
				}
				rest = strings.TrimSpace(rest[len(w2):])
				w = "pred"
			}
			isPred := w == "pred"
			if !isPred {
				w2 := firstWord(rest)
				if w2 == "func" {
					rest = strings.TrimSpace(rest[len(w2):])
				}
			}
			eq := findTopLevelEq(rest)
			if eq < 0 {
				return nil, perr(g, fmt.Errorf("missing '=' in definition"))
			}
			head, body := rest[:eq], rest[eq+1:]
			toks, err := lex(head)
			if err != nil {
				return nil, perr(g, err)
			}
			p := &parser{toks: toks, src: head}
			pd := &PureDecl{Text: strings.TrimSpace(body), Opaque: opaque}
			if e := catch(func() {
				pd.Name = p.ident()
				p.expect("(")
				for !p.isOp(")") {
					var names []string
					names = append(names, p.ident())
					for p.accept(",") {
						names = append(names, p.ident())
					}
					t := p.parseType()
					for _, n := range names {
						pd.Params = append(pd.Params, Binder{n, t})
					}
					if !p.accept(";") {
						p.accept(",")
					}
				}
				p.expect(")")
				if !isPred && p.peek().kind != "eof" {
					pd.Ret = p.parseType()
				}
			}); e != nil {
				return nil, perr(g, e)
			}
			pd.Body, err = parseExprString(body)
			if err != nil {
				return nil, perr(g, err)
			}
			sf.Pures = append(sf.Pures, pd)
			cur = nil
		case "confined":
			cd, err := parseConfined(rest)
			if err != nil {
				return nil, perr(g, err)
			}
			cd.Line = g.line
			sf.Confined = append(sf.Confined, cd)
			cur = nil
		case "callers":
			// callers <function key> serves Cxx ... = fnkey fnkey ...   (the complete list of module functions that call it)
			i := strings.Index(rest, "=")
			if i < 0 {
				return nil, perr(g, fmt.Errorf("callers: expected 'callers <function> serves Cxx = <function keys>'"))
			}
			f := strings.Fields(rest[:i])
			if len(f) < 3 || f[1] != "serves" {
				return nil, perr(g, fmt.Errorf("callers: expected 'callers <function> serves Cxx = <function keys>'"))
			}
			sf.Writers = append(sf.Writers, WritersDecl{Path: "call:" + f[0], Serves: f[2:], Allowed: strings.Fields(rest[i+1:]), Line: g.line})
			cur = nil
		case "writers":
			// writers pkg.Type.Field[[]] serves Cxx ... = fnkey fnkey ...
			i := strings.Index(rest, "=")
			if i < 0 {
				return nil, perr(g, fmt.Errorf("writers: expected 'writers pkg.Type.Field serves Cxx = <function keys>'"))
			}
			f := strings.Fields(rest[:i])
			if len(f) < 3 || f[1] != "serves" {
				return nil, perr(g, fmt.Errorf("writers: expected 'writers pkg.Type.Field serves Cxx = <function keys>'"))
			}
			sf.Writers = append(sf.Writers, WritersDecl{Path: f[0], Serves: f[2:], Allowed: strings.Fields(rest[i+1:]), Line: g.line})
			cur = nil
		case "tag":
			// tag pkg.Type.Field serves Cxx = <exact struct tag>   (syntactic obligation: the field's tag is this string)
			i := strings.Index(rest, "=")
			if i < 0 {
				return nil, perr(g, fmt.Errorf("tag: expected 'tag pkg.Type.Field serves Cxx = <tag>'"))
			}
			f := strings.Fields(rest[:i])
			if len(f) < 3 || f[1] != "serves" {
				return nil, perr(g, fmt.Errorf("tag: expected 'tag pkg.Type.Field serves Cxx = <tag>'"))
			}
			sf.Tags = append(sf.Tags, TagDecl{Path: f[0], Serves: f[2:], Want: strings.Join(strings.Fields(rest[i+1:]), " "), Line: g.line})
			cur = nil
		case "axiom", "lemma":
			label, r := stripLabel(rest)
			e, err := parseExprString(r)
			if err != nil {
				return nil, perr(g, err)
			}
			cl := Clause{Label: label, E: e, Text: r, Line: g.line}
			if w == "axiom" {
				sf.Axioms = append(sf.Axioms, cl)
			} else {
				sf.Lemmas = append(sf.Lemmas, cl)
			}
			cur = nil
		default:
			if cur == nil {
				return nil, perr(g, fmt.Errorf("clause %q outside a func contract", w))
			}
			switch w {
			case "reached":
				// reached [label] when <cond>
				label, r := stripLabel(rest)
				r = strings.TrimSpace(r)
				if !strings.HasPrefix(r, "when ") {
					return nil, perr(g, fmt.Errorf("reached: expected 'reached [label] when <condition>'"))
				}
				r = strings.TrimSpace(strings.TrimPrefix(r, "when "))
				e, err := parseExprString(r)
				if err != nil {
					return nil, perr(g, err)
				}
				if curCall == nil {
					return nil, perr(g, fmt.Errorf("reached outside 'at call'"))
				}
				curCall.Reached = append(curCall.Reached, Clause{Label: label, E: e, Text: r, Line: g.line})
			case "requires", "ensures", "invariant", "assert", "assume", "unfold", "fold":
				label, r := stripLabel(rest)
				e, err := parseExprString(r)
				if err != nil {
					return nil, perr(g, err)
				}
				cl := Clause{Label: label, E: e, Text: r, Line: g.line}
				switch w {
				case "requires":
					cur.Requires = append(cur.Requires, cl)
				case "ensures":
					cur.Ensures = append(cur.Ensures, cl)
				case "invariant":
					if curLoop == nil {
						return nil, perr(g, fmt.Errorf("invariant outside loop"))
					}
					curLoop.Invs = append(curLoop.Invs, cl)
				case "assert":
					if curCall == nil {
						return nil, perr(g, fmt.Errorf("assert outside 'at call'"))
					}
					curCall.Asserts = append(curCall.Asserts, cl)
				case "assume":
					if curCall == nil {
						return nil, perr(g, fmt.Errorf("assume outside 'at call'"))
					}
					curCall.Assumes = append(curCall.Assumes, cl)
				case "unfold":
					if curCall == nil {
						return nil, perr(g, fmt.Errorf("unfold outside 'at call'"))
					}
					curCall.Unfolds = append(curCall.Unfolds, cl)
				case "fold":
					if curCall == nil {
						return nil, perr(g, fmt.Errorf("fold outside 'at call'"))
					}
					curCall.Folds = append(curCall.Folds, cl)
				}
			case "exit":
				// exit set NAME := expr : ghost update applied at every return of the function
				r := strings.TrimSpace(rest)
				if !strings.HasPrefix(r, "set ") {
					return nil, perr(g, fmt.Errorf("exit: expected 'exit set NAME := expr'"))
				}
				r = strings.TrimPrefix(r, "set ")
				i := strings.Index(r, ":=")
				if i < 0 {
					return nil, perr(g, fmt.Errorf("exit set needs :="))
				}
				e, err := parseExprString(r[i+2:])
				if err != nil {
					return nil, perr(g, err)
				}
				cur.ExitSets = append(cur.ExitSets, GhostUpd{Name: strings.TrimSpace(r[:i]), E: e, Text: r})
			case "set":
				// ghost update at a call site: set NAME := expr
				if curCall == nil {
					return nil, perr(g, fmt.Errorf("set outside 'at call'"))
				}
				i := strings.Index(rest, ":=")
				if i < 0 {
					return nil, perr(g, fmt.Errorf("set needs :="))
				}
				e, err := parseExprString(rest[i+2:])
				if err != nil {
					return nil, perr(g, err)
				}
				curCall.Ghosts = append(curCall.Ghosts, GhostUpd{Name: strings.TrimSpace(rest[:i]), E: e, Text: rest})
			case "modifies":
				if curLoop != nil {
					curLoop.HasModifies = true
				} else {
					cur.HasModifies = true
				}
				for _, part := range splitTopLevel(rest, ',') {
					part = strings.TrimSpace(part)
					if part == "" || part == "nothing" {
						continue
					}
					if part == "*" {
						if curLoop != nil {
							return nil, perr(g, fmt.Errorf("loop modifies * not supported"))
						}
						cur.ModAll = true
						continue
					}
					e, err := parseExprString(part)
					if err != nil {
						return nil, perr(g, err)
					}
					if curLoop != nil {
						curLoop.Modifies = append(curLoop.Modifies, e)
						continue
					}
					cur.Modifies = append(cur.Modifies, e)
					cur.ModText = append(cur.ModText, part)
				}
			case "serves":
				for _, f := range strings.FieldsFunc(rest, func(r rune) bool { return r == ' ' || r == ',' || r == ';' }) {
					cur.Serves = append(cur.Serves, f)
				}
			case "owns":
				txt := rest
				var whenE Expr
				if i := strings.Index(txt, " when "); i >= 0 {
					e, err := parseExprString(txt[i+6:])
					if err != nil {
						return nil, perr(g, err)
					}
					whenE = e
					txt = txt[:i]
				}
				i := strings.Index(txt, " by ")
				if i < 0 {
					return nil, perr(g, fmt.Errorf("owns needs 'X by Y'"))
				}
				xe, err := parseExprString(txt[:i])
				if err != nil {
					return nil, perr(g, err)
				}
				ye, err := parseExprString(txt[i+4:])
				if err != nil {
					return nil, perr(g, err)
				}
				cur.Owns = append(cur.Owns, OwnsClause{X: xe, Y: ye, When: whenE, Text: rest, Line: g.line})
			case "reveal":
				if cur.Reveal == nil {
					cur.Reveal = map[string]bool{}
				}
				for _, f := range strings.FieldsFunc(rest, func(r rune) bool { return r == ' ' || r == ',' }) {
					cur.Reveal[f] = true
				}
			case "cases":
				// cases name1: expr | name2: expr
				for _, part := range splitTopLevelStr(rest, " | ") {
					i := strings.Index(part, ":")
					if i < 0 {
						return nil, perr(g, fmt.Errorf("case needs 'name: expr'"))
					}
					e, err := parseExprString(part[i+1:])
					if err != nil {
						return nil, perr(g, err)
					}
					cur.Cases = append(cur.Cases, Clause{Label: strings.TrimSpace(part[:i]), E: e, Text: strings.TrimSpace(part[i+1:]), Line: g.line})
				}
			case "dispatch":
				// dispatch Iface: T1, T2
				i := strings.Index(rest, ":")
				if i < 0 {
					return nil, perr(g, fmt.Errorf("dispatch needs ':'"))
				}
				if cur.Dispatch == nil {
					cur.Dispatch = map[string][]string{}
				}
				iface := strings.TrimSpace(rest[:i])
				for _, t := range strings.Split(rest[i+1:], ",") {
					cur.Dispatch[iface] = append(cur.Dispatch[iface], strings.TrimSpace(t))
				}
			case "uses":
				// uses a b c for x: postcondition x is proved last, with postconditions a, b, c (proved on their own) assumed
				f := strings.Fields(rest)
				var hide []string
				for i, w := range f {
					if w == "hiding" {
						hide = append(hide, f[i+1:]...)
						f = f[:i]
						break
					}
				}
				k := -1
				for i, w := range f {
					if w == "for" {
						k = i
					}
				}
				if cur.UsesHide == nil {
					cur.UsesHide = map[string][]string{}
				}
				if k >= 1 && k == len(f)-2 {
					cur.UsesHide[f[k+1]] = hide
				}
				if k < 1 || k != len(f)-2 {
					return nil, perr(g, fmt.Errorf("uses: expected 'uses <labels> for <label>'"))
				}
				if cur.Uses == nil {
					cur.Uses = map[string][]string{}
				}
				cur.Uses[f[k+1]] = append(cur.Uses[f[k+1]], f[:k]...)
			case "locals":
				// locals name:type | name:type | ...   (generated by `govc locals`)
				for _, ent := range strings.Split(rest, " | ") {
					ent = strings.TrimSpace(ent)
					if i := strings.Index(ent, ":"); i > 0 {
						cur.Locals = append(cur.Locals, LocalEntry{Name: ent[:i], Type: ent[i+1:]})
					}
				}
			case "flag":
				if cur.Flags == nil {
					cur.Flags = map[string]bool{}
				}
				for _, f := range strings.Fields(rest) {
					cur.Flags[f] = true
				}
			case "loop":
				desc := strings.TrimSuffix(strings.TrimSpace(rest), ":")
				curLoop = &LoopAnn{Desc: normWS(desc), Line: g.line}
				cur.Loops = append(cur.Loops, curLoop)
				curCall = nil
			case "at", "after":
				// at call NAME[#n]:
				r := strings.TrimSpace(rest)
				r = strings.TrimPrefix(r, "call")
				r = strings.TrimSuffix(strings.TrimSpace(r), ":")
				ca := &CallAnn{Line: g.line, After: w == "after"}
				if i := strings.Index(r, "#"); i >= 0 {
					fmt.Sscanf(r[i+1:], "%d", &ca.Ordinal)
					r = r[:i]
				}
				if i := strings.Index(r, "~"); i >= 0 {
					ca.Text = strings.TrimSpace(r[i+1:])
					r = r[:i]
				}
				ca.Callee = strings.TrimSpace(r)
				cur.Calls = append(cur.Calls, ca)
				curCall = ca
				curLoop = nil
			}
		}
	}
	return sf, nil
}

func catch(f func()) (err error) {
	defer func() {
		if r := recover(); r != nil {
			if e, ok := r.(error); ok {
				err = e
				return
			}
			panic(r)
		}
	}()
	f()
	return nil
}

func normWS(s string) string { return strings.Join(strings.Fields(s), "") }

func findTopLevelEq(s string) int {
	depth := 0
	for i := 0; i < len(s); i++ {
		switch s[i] {
		case '(', '[':
			depth++
		case ')', ']':
			depth--
		case '=':
			if depth == 0 && (i+1 >= len(s) || s[i+1] != '=') && (i == 0 || (s[i-1] != '=' && s[i-1] != '!' && s[i-1] != '<' && s[i-1] != '>' && s[i-1] != ':')) {
				return i
			}
		}
	}
	return -1
}

func splitTopLevelStr(s, sep string) []string {
	var out []string
	depth, start := 0, 0
	for i := 0; i < len(s); i++ {
		switch s[i] {
		case '(', '[':
			depth++
		case ')', ']':
			depth--
		}
		if depth == 0 && strings.HasPrefix(s[i:], sep) {
			out = append(out, s[start:i])
			start = i + len(sep)
			i += len(sep) - 1
		}
	}
	return append(out, s[start:])
}

func splitTopLevel(s string, sep byte) []string {
	var out []string
	depth, start := 0, 0
	for i := 0; i < len(s); i++ {
		switch s[i] {
		case '(', '[':
			depth++
		case ')', ']':
			depth--
		default:
			if s[i] == sep && depth == 0 {
				out = append(out, s[start:i])
				start = i + 1
			}
		}
	}
	return append(out, s[start:])
}

// parseFuncHeader parses "(r *T) Name(a A, b B) (x X, err error)" or "pkg.Name(...)".
func parseFuncHeader(s string) (*FuncContract, error) {
	fc := &FuncContract{Sig: s}
	toks, err := lex(s)
	if err != nil {
		return nil, err
	}
	p := &parser{toks: toks, src: s}
	e := catch(func() {
		if p.accept("(") {
			fc.RecvName = p.ident()
			if p.accept("*") {
				fc.RecvPtr = true
			}
			n := p.ident()
			if p.accept(".") {
				fc.PkgName = n
				n = p.ident()
			}
			fc.Recv = n
			p.expect(")")
		}
		n := p.ident()
		if p.accept(".") {
			fc.PkgName = n
			n = p.ident()
		}
		fc.Name = n
		p.expect("(")
		fc.Params = parseParamNames(p)
		if p.accept("(") {
			fc.Results = parseParamNames(p)
		} else if p.peek().kind != "eof" {
			// single unnamed result
			p.parseType()
			fc.Results = []string{"result"}
		}
	})
	return fc, e
}

// parseParamNames parses "a, b T, c ...U)" returning the names; consumes the closing paren.
func parseParamNames(p *parser) []string {
	var names []string
	for !p.isOp(")") {
		var group []string
		group = append(group, p.ident())
		for p.accept(",") {
			group = append(group, p.ident())
		}
		// variadic
		if p.isOp(".") {
			p.next()
			p.expect(".")
			p.expect(".")
		}
		skipType(p)
		names = append(names, group...)
		p.accept(",")
	}
	p.expect(")")
	return names
}

func skipType(p *parser) {
	// func types and others: skip balanced tokens until , or ) at depth 0
	depth := 0
	for {
		t := p.peek()
		if t.kind == "eof" {
			return
		}
		if t.kind == "op" {
			switch t.s {
			case "(", "[", "{":
				depth++
			case ")", "]", "}":
				if depth == 0 {
					return
				}
				depth--
			case ",":
				if depth == 0 {
					return
				}
			}
		}
		p.next()
	}
}
