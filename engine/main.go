package main

import (
	"flag"
	"fmt"
	"os"
	"runtime"
	"sort"
	"strings"
	"time"

	"golang.org/x/tools/go/ssa"
)

func main() {
	if len(os.Args) < 2 {
		fmt.Fprintln(os.Stderr, "usage: govc <func|check|list|replay> [flags]")
		os.Exit(2)
	}
	switch os.Args[1] {
	case "func":
		cmdFunc(os.Args[2:])
	case "check":
		os.Exit(cmdCheck(os.Args[2:]))
	case "list":
		cmdList(os.Args[2:])
	case "replay":
		os.Exit(cmdReplay(os.Args[2:]))
	case "reach":
		cmdReach(os.Args[2:])
	case "writers":
		cmdWriters(os.Args[2:])
	case "locals":
		cmdLocals(os.Args[2:])
	default:
		fmt.Fprintln(os.Stderr, "unknown command", os.Args[1])
		os.Exit(2)
	}
}

func workers() int {
	n := runtime.NumCPU() - 2
	if n < 2 {
		n = 2
	}
	return n
}

// cmdFunc: verify the named functions and print every obligation's verdict (debugging aid).
func cmdFunc(args []string) {
	fs := flag.NewFlagSet("func", flag.ExitOnError)
	repo := fs.String("repo", "/repo", "repository root")
	timeout := fs.Float64("timeout", 10, "per-obligation timeout (s)")
	keep := fs.String("keep", "", "directory to keep SMT scripts in")
	sweep := fs.Bool("sweep", false, "safety-only mode without contract")
	only := fs.String("only", "", "substring filter on obligation names")
	showNotes := fs.Bool("notes", false, "print notes")
	fs.Parse(args)
	w, err := loadWorld(*repo, nil)
	if err != nil {
		fmt.Fprintln(os.Stderr, err)
		os.Exit(2)
	}
	dir := *keep
	if dir == "" {
		dir, _ = os.MkdirTemp("", "govc-")
		defer os.RemoveAll(dir)
	} else {
		os.MkdirAll(dir, 0o755)
	}
	for _, name := range fs.Args() {
		fn := w.fnByKey[name]
		if fn == nil {
			fmt.Printf("function %s not found\n", name)
			continue
		}
		fc := w.contractFor(fn)
		mode := "contract"
		if *sweep || fc == nil {
			mode = "sweep"
			fc = nil
		}
		t0 := time.Now()
		res := w.verifyFunc(fn, fc, mode, nil)
		fmt.Printf("== %s: %d obligations, %d items, gen %.2fs\n", name, len(res.Obls), len(res.Items), time.Since(t0).Seconds())
		if res.Failed != "" {
			fmt.Printf("   OUT OF REACH: %s\n", res.Failed)
		}
		if *only != "" {
			var keep []*Obl
			for _, o := range res.Obls {
				if strings.Contains(o.Name, *only) {
					keep = append(keep, o)
				}
			}
			res.Obls = keep
		}
		vs := dischargeAll([]*FuncResult{res}, dir, *timeout, false, workers())
		for _, v := range vs {
			extra := ""
			if v.Status != "proved" {
				extra = " " + firstLines(v.Detail, 2)
				if len(v.Model) > 0 {
					extra = " model=" + fmt.Sprint(v.Model)
				}
			}
			fmt.Printf("   %-8s %-10s %5.2fs %s%s\n", v.Status, v.Solver, v.Time, v.Obl.Name, extra)
		}
		if *showNotes {
			for _, n := range res.Notes {
				fmt.Println("   note:", n)
			}
		}
	}
}

func cmdList(args []string) {
	fs := flag.NewFlagSet("list", flag.ExitOnError)
	repo := fs.String("repo", "/repo", "repository root")
	all := fs.Bool("all", false, "list every repository function (contract or not)")
	fs.Parse(args)
	w, err := loadWorld(*repo, nil)
	if err != nil {
		fmt.Fprintln(os.Stderr, err)
		os.Exit(2)
	}
	if *all {
		var ks []string
		for k, fn := range w.fnByKey {
			if fn.Pkg == nil || !strings.HasPrefix(fn.Pkg.Pkg.Path(), "github.com/free5gc/go-upf/") || fn.Synthetic != "" || len(fn.Blocks) == 0 {
				continue
			}
			ks = append(ks, k)
		}
		sort.Strings(ks)
		for _, k := range ks {
			has := "-"
			if fc := w.contracts[k]; fc != nil {
				has = "contract"
			}
			fmt.Printf("%s %s %s\n", k, has, w.fset.Position(w.fnByKey[k].Pos()).Filename)
		}
		return
	}
	var keys []string
	for k := range w.contracts {
		keys = append(keys, k)
	}
	sort.Strings(keys)
	for _, k := range keys {
		fc := w.contracts[k]
		fmt.Printf("%-60s extern=%v serves=%v\n", k, fc.Extern, fc.Serves)
	}
}

var _ *ssa.Function

// cmdReach lists the functions of the given dependency packages (by package name) that repository code reaches
// through static calls, transitively within those packages.
func cmdReach(args []string) {
	fs := flag.NewFlagSet("reach", flag.ExitOnError)
	repo := fs.String("repo", "/repo", "repository root")
	pk := fs.String("pkgs", "ie", "comma-separated dependency package names")
	fs.Parse(args)
	w, err := loadWorld(*repo, nil)
	if err != nil {
		fmt.Fprintln(os.Stderr, err)
		os.Exit(2)
	}
	want := map[string]bool{}
	for _, p := range strings.Split(*pk, ",") {
		want[p] = true
	}
	seen := map[*ssa.Function]bool{}
	var work []*ssa.Function
	callees := func(fn *ssa.Function) []*ssa.Function {
		var out []*ssa.Function
		for _, b := range fn.Blocks {
			for _, ins := range b.Instrs {
				if ci, ok := ins.(ssa.CallInstruction); ok {
					if c := ci.Common().StaticCallee(); c != nil {
						out = append(out, c)
					}
				}
			}
		}
		return out
	}
	for _, fn := range w.fnByKey {
		if fn.Pkg == nil || !strings.HasPrefix(fn.Pkg.Pkg.Path(), "github.com/free5gc/go-upf/") {
			continue
		}
		for _, c := range callees(fn) {
			if c.Pkg != nil && want[c.Pkg.Pkg.Name()] && !seen[c] {
				seen[c] = true
				work = append(work, c)
			}
		}
	}
	for len(work) > 0 {
		fn := work[len(work)-1]
		work = work[:len(work)-1]
		for _, c := range callees(fn) {
			if c.Pkg != nil && want[c.Pkg.Pkg.Name()] && !seen[c] {
				seen[c] = true
				work = append(work, c)
			}
		}
	}
	var ks []string
	for fn := range seen {
		if len(fn.Blocks) > 0 {
			ks = append(ks, fnKey(fn))
		}
	}
	sort.Strings(ks)
	for _, k := range ks {
		fmt.Println(k)
	}
}

// cmdWriters: print every writers obligation with its verdict and the reason (debugging aid).
func cmdWriters(args []string) {
	fs := flag.NewFlagSet("writers", flag.ExitOnError)
	repo := fs.String("repo", "/repo", "repository root")
	fs.Parse(args)
	w, err := loadWorld(*repo, nil)
	if err != nil {
		fmt.Fprintln(os.Stderr, err)
		os.Exit(2)
	}
	seen := map[string]bool{}
	for _, wd := range w.writers {
		for _, p := range wd.Serves {
			if seen[p] {
				continue
			}
			seen[p] = true
			for _, o := range w.writersObligations(p).Obls {
				fmt.Printf("%s %s goal=%s %s\n", p, o.Name, o.Goal, o.Detail)
			}
		}
	}
	for _, cd := range w.confined {
		for _, p := range cd.Serves {
			r := w.confinedObligations(p)
			for _, o := range r.Obls {
				fmt.Printf("%s %s goal=%s %s\n", p, o.Name, o.Goal, o.Detail)
			}
			for _, n := range r.Notes {
				fmt.Println("  note:", n)
			}
		}
	}
	if w.cw != nil {
		for _, f := range w.cw.addrTaken {
			fmt.Printf("  address-taken %s\n", fnKey(f))
		}
		for _, r := range w.cw.roots {
			fmt.Printf("  root %s [%s]\n", fnKey(r.fn), r.what)
		}
	}
}

// cmdLocals: print, for every function under contract in the repository, the table of its named locals as a
// "locals" clause (tools/gen_locals.py writes them into the contract files).
func cmdLocals(args []string) {
	fs := flag.NewFlagSet("locals", flag.ExitOnError)
	repo := fs.String("repo", "/repo", "repository root")
	fs.Parse(args)
	w, err := loadWorld(*repo, nil)
	if err != nil {
		fmt.Fprintln(os.Stderr, err)
		os.Exit(2)
	}
	var keys []string
	for k, fc := range w.contracts {
		if fc.Extern || fc.Verified || fc.IfaceMethod {
			continue
		}
		if _, ok := w.fnByKey[k]; ok {
			keys = append(keys, k)
		}
	}
	sort.Strings(keys)
	for _, k := range keys {
		ls := w.currentLocals(w.fnByKey[k])
		if len(ls) == 0 {
			continue
		}
		var parts []string
		for _, l := range ls {
			parts = append(parts, l.Name+":"+l.Type)
		}
		fmt.Printf("%s\t%s\n", k, strings.Join(parts, " | "))
	}
}
