package main

import (
	"fmt"
	"go/constant"
	"go/types"
	"math/big"
	"strings"
)

type constVal struct {
	I *big.Int
}

// SType describes spec-only types.
type SType struct {
	Kind string // set, gmap, tuple
	Key  *resolvedType
	Elem *resolvedType
	Name string
	Flds []tupleFld
}

type tupleFld struct {
	Name string
	T    *resolvedType
}

type resolvedType struct {
	Go types.Type
	S  *SType
}

type Env struct {
	c     *Ctx
	st    *State
	old   *State
	vars  map[string]Val
	pkg   *types.Package
	guard string
	depth int
	before *State // loop invariants: the state in which the loop was entered
}

func (e *Env) with(vars map[string]Val) *Env {
	n := *e
	n.vars = map[string]Val{}
	for k, v := range e.vars {
		n.vars[k] = v
	}
	for k, v := range vars {
		n.vars[k] = v
	}
	return &n
}

// stOf: the state in which v is dereferenced (old(...) values carry their own state).
func (e *Env) stOf(v Val) *State {
	if v.St != nil {
		return v.St
	}
	return e.st
}

func inherit(v Val, from Val) Val {
	if from.St != nil && v.St == nil {
		v.St = from.St
	}
	return v
}

func (e *Env) inOld() *Env {
	if e.old == nil {
		e.c.fail("old() used where no pre-state exists")
	}
	n := *e
	n.st = e.old
	if ov, ok := e.vars["$oldvars"]; ok {
		_ = ov
	}
	return &n
}

func (c *Ctx) resolveType(pkg *types.Package, t *TypeExpr) *resolvedType {
	switch t.Kind {
	case "named":
		if flds, ok := c.W.specTypes[t.Name]; ok && t.Pkg == "" {
			st := &SType{Kind: "tuple", Name: t.Name}
			for _, f := range flds {
				st.Flds = append(st.Flds, tupleFld{f.Name, c.resolveType(pkg, f.T)})
			}
			return &resolvedType{S: st}
		}
		name := t.Name
		if name == "byte" {
			name = "uint8"
		}
		if name == "ref" && t.Pkg == "" {
			// any reference (pointer, map, channel): sort Ref
			return &resolvedType{Go: types.Typ[types.UnsafePointer]}
		}
		T := c.W.resolveNamedType(pkg, t.Pkg, name)
		if T == nil {
			c.fail("spec: unknown type %s", t)
		}
		return &resolvedType{Go: T}
	case "ptr":
		el := c.resolveType(pkg, t.Elem)
		return &resolvedType{Go: types.NewPointer(el.Go)}
	case "slice":
		el := c.resolveType(pkg, t.Elem)
		return &resolvedType{Go: types.NewSlice(el.Go)}
	case "map":
		k, el := c.resolveType(pkg, t.Key), c.resolveType(pkg, t.Elem)
		return &resolvedType{Go: types.NewMap(k.Go, el.Go)}
	case "set":
		return &resolvedType{S: &SType{Kind: "set", Key: c.resolveType(pkg, t.Key)}}
	}
	c.fail("spec: bad type %s", t)
	return nil
}

// sortOfRT returns the single SMT sort of a resolved type (spec types are single-sorted).
func (c *Ctx) sortOfRT(rt *resolvedType) string {
	if rt.S != nil {
		switch rt.S.Kind {
		case "set":
			return arrSort(c.sortOfRT(rt.S.Key), SBool)
		case "tuple":
			c.declTuple(rt.S)
			return "T_" + rt.S.Name
		}
	}
	ls := c.leaves(rt.Go)
	if len(ls) != 1 {
		c.fail("spec: type %s is not single-sorted", rt.Go)
	}
	return ls[0].Sort
}

func (c *Ctx) declTuple(st *SType) {
	key := "tuple:" + st.Name
	if c.declared[key] {
		return
	}
	var flds []string
	for _, f := range st.Flds {
		flds = append(flds, fmt.Sprintf("(T_%s_%s %s)", st.Name, f.Name, c.sortOfRT(f.T)))
	}
	c.raw(key, fmt.Sprintf("(declare-datatypes ((T_%s 0)) (((mk_T_%s %s))))", st.Name, st.Name, strings.Join(flds, " ")))
}

func boolVal(t string) Val { return Val{T: types.Typ[types.Bool], L: []string{t}} }

func (e *Env) evalBool(x Expr) string {
	v := e.eval(x)
	if len(v.L) != 1 || v.T == nil || !isBoolT(v.T) {
		e.c.fail("spec: expected boolean expression")
	}
	return v.L[0]
}

func isBoolT(T types.Type) bool {
	b, ok := T.Underlying().(*types.Basic)
	return ok && b.Info()&types.IsBoolean != 0
}

func (e *Env) coerceConst(v Val, T types.Type) Val {
	if v.Const == nil {
		return v
	}
	if T == nil || !isInteger(T) {
		T = types.Typ[types.Int]
	}
	w := sortWidth(e.c.leaves(T)[0].Sort)
	return Val{T: T, L: []string{bvLit(v.Const.I, w)}}
}

func (e *Env) unify(a, b Val) (Val, Val) {
	if a.Const != nil && b.Const != nil {
		return a, b
	}
	if a.Const != nil {
		return e.coerceConst(a, b.T), b
	}
	if b.Const != nil {
		return a, e.coerceConst(b, a.T)
	}
	return a, b
}

func (e *Env) eval(x Expr) Val {
	c := e.c
	switch x := x.(type) {
	case *ELit:
		switch {
		case x.Int != nil:
			return Val{Const: &constVal{x.Int}}
		case x.Bool != nil:
			if *x.Bool {
				return boolVal("true")
			}
			return boolVal("false")
		case x.Str != nil:
			return Val{T: types.Typ[types.String], L: []string{c.strLit(*x.Str)}}
		case x.Nil:
			return Val{T: types.Typ[types.UntypedNil], L: []string{"null"}}
		}
	case *EIdent:
		if v, ok := e.vars[x.Name]; ok {
			return v
		}
		if g, ok := c.W.ghosts[x.Name]; ok {
			rt := c.resolveType(e.pkg, g.T)
			sort := c.sortOfRT(rt)
			return Val{ST: rt.S, T: rt.Go, L: []string{c.comp(e.st, "G|"+x.Name, sort)}}
		}
		if k := c.W.lookupConst(e.pkg, "", x.Name); k != nil {
			return e.constToVal(k)
		}
		if p, ok := c.W.pures[x.Name]; ok && len(p.Params) == 0 {
			return e.eval(p.Body)
		}
		if e.pkg != nil {
			// package-level variable of the function's own package
			if gv, ok := e.pkg.Scope().Lookup(x.Name).(*types.Var); ok {
				ls := c.leaves(gv.Type())
				v := Val{T: gv.Type(), L: make([]string, len(ls))}
				for i, l := range ls {
					v.L[i] = c.comp(e.st, "GL|"+e.pkg.Name()+"."+gv.Name()+l.Path, l.Sort)
				}
				return v
			}
		}
		var have []string
		for k := range e.vars {
			have = append(have, k)
		}
		sortStrings(have)
		c.fail("spec: unknown identifier %q (in scope: %s)", x.Name, strings.Join(have, " "))
	case *ESel:
		if id, ok := x.X.(*EIdent); ok {
			if _, isVar := e.vars[id.Name]; !isVar {
				if _, isGhost := c.W.ghosts[id.Name]; !isGhost {
					if k := c.W.lookupConst(e.pkg, id.Name, x.Name); k != nil {
						return e.constToVal(k)
					}
					// package-level variable of an imported package
					for _, p := range c.W.pkgsNamed(e.pkg, id.Name) {
						if gv, ok := p.Scope().Lookup(x.Name).(*types.Var); ok {
							ls := c.leaves(gv.Type())
							v := Val{T: gv.Type(), L: make([]string, len(ls))}
							for i, l := range ls {
								v.L[i] = c.comp(e.st, "GL|"+p.Name()+"."+gv.Name()+l.Path, l.Sort)
							}
							return v
						}
					}
					c.fail("spec: unknown qualified name %s.%s", id.Name, x.Name)
				}
			}
		}
		v := e.eval(x.X)
		return e.selectField(v, x.Name)
	case *EIndex:
		v := e.eval(x.X)
		if v.ST != nil && v.ST.Kind == "set" {
			k := e.evalAs(x.I, v.ST.Key)
			return boolVal(tSel(v.L[0], k))
		}
		switch u := v.T.Underlying().(type) {
		case *types.Slice:
			i := e.evalIndex(x.I)
			return inherit(c.loadElem(e.stOf(v), u.Elem(), v.L[0], idxAt(v.L[1], i)), v)
		case *types.Map:
			mi := c.mapInfo(v.T)
			k := e.evalTyped(x.I, mi.K)
			return inherit(c.mapGet(e.stOf(v), mi, v.L[0], k.L[0]), v)
		case *types.Pointer:
			if a, ok := u.Elem().Underlying().(*types.Array); ok {
				i := e.evalIndex(x.I)
				return inherit(c.loadElem(e.stOf(v), a.Elem(), v.L[0], i), v)
			}
		case *types.Basic:
			if u.Info()&types.IsString != 0 {
				i := e.evalIndex(x.I)
				c.declStr()
				return Val{T: types.Typ[types.Uint8], L: []string{app("strbyte", v.L[0], i)}}
			}
		}
		c.fail("spec: cannot index %s", v.T)
	case *ESlice:
		v := e.eval(x.X)
		if _, ok := v.T.Underlying().(*types.Slice); !ok {
			c.fail("spec: cannot slice %s", v.T)
		}
		lo := bvU(0, 64)
		if x.Lo != nil {
			lo = e.evalIndex(x.Lo)
		}
		hi := v.L[2]
		if x.Hi != nil {
			hi = e.evalIndex(x.Hi)
		}
		return inherit(Val{T: v.T, L: []string{v.L[0], app("bvadd", v.L[1], lo), app("bvsub", hi, lo)}}, v)
	case *EBefore:
		if e.before == nil {
			e.c.fail("before() used outside a loop invariant")
		}
		n := *e
		n.st = e.before
		v := n.eval(x.X)
		if v.St == nil {
			v.St = n.st
		}
		return v
	case *EOld:
		o := e.inOld()
		v := o.eval(x.X)
		if v.St == nil {
			v.St = o.st
		}
		return v
	case *EIte:
		cnd := e.evalBool(x.C)
		a, b := e.unify(e.eval(x.A), e.eval(x.B))
		a, b = e.coerceConst(a, nil), e.coerceConst(b, nil)
		out := Val{T: a.T, ST: a.ST, L: make([]string, len(a.L))}
		for i := range a.L {
			out.L[i] = tIte(cnd, a.L[i], b.L[i])
		}
		return out
	case *EUn:
		v := e.eval(x.X)
		switch x.Op {
		case "!":
			return boolVal(tNot(v.L[0]))
		case "-":
			if v.Const != nil {
				return Val{Const: &constVal{new(big.Int).Neg(v.Const.I)}}
			}
			return Val{T: v.T, L: []string{app("bvneg", v.L[0])}}
		case "^":
			if v.Const != nil {
				return Val{Const: &constVal{new(big.Int).Not(v.Const.I)}}
			}
			return Val{T: v.T, L: []string{app("bvnot", v.L[0])}}
		}
	case *EBin:
		return e.evalBin(x)
	case *EConv:
		v := e.eval(x.X)
		rt := c.resolveType(e.pkg, x.T)
		if v.Const != nil {
			return e.coerceConst(v, rt.Go)
		}
		if isBoolT(rt.Go) {
			return v
		}
		return Val{T: rt.Go, L: []string{c.convInt(v.L[0], v.T, rt.Go)}}
	case *EQuant:
		return e.evalQuant(x)
	case *ECall:
		return e.evalCall(x)
	case *ETypeIs:
		v := e.eval(x.X)
		rt := c.resolveType(e.pkg, x.T)
		c.declIface()
		return boolVal(tEq(app("itag", v.L[0]), c.typeID(rt.Go)))
	case *ETypeAssert:
		v := e.eval(x.X)
		rt := c.resolveType(e.pkg, x.T)
		return c.ifacePayload(v.L[0], rt.Go)
	}
	c.fail("spec: cannot evaluate %T", x)
	return Val{}
}

func (e *Env) constToVal(k *types.Const) Val {
	c := e.c
	switch k.Val().Kind() {
	case constant.Int:
		bi, _ := new(big.Int).SetString(k.Val().ExactString(), 10)
		if b, ok := k.Type().Underlying().(*types.Basic); ok && b.Info()&types.IsUntyped == 0 {
			w := sortWidth(c.leaves(k.Type())[0].Sort)
			return Val{T: k.Type(), L: []string{bvLit(bi, w)}}
		}
		return Val{Const: &constVal{bi}}
	case constant.Bool:
		if constant.BoolVal(k.Val()) {
			return boolVal("true")
		}
		return boolVal("false")
	case constant.String:
		return Val{T: types.Typ[types.String], L: []string{c.strLit(constant.StringVal(k.Val()))}}
	}
	c.fail("spec: unsupported constant %s", k.Name())
	return Val{}
}

func (e *Env) evalIndex(x Expr) string {
	v := e.eval(x)
	if v.Const != nil {
		return bvLit(v.Const.I, 64)
	}
	return e.c.convInt(v.L[0], v.T, types.Typ[types.Int])
}

func (e *Env) evalTyped(x Expr, T types.Type) Val {
	v := e.eval(x)
	if v.Const != nil {
		return e.coerceConst(v, T)
	}
	return v
}

func (e *Env) evalAs(x Expr, rt *resolvedType) string {
	v := e.eval(x)
	if v.Const != nil {
		v = e.coerceConst(v, rt.Go)
	}
	if len(v.L) != 1 {
		e.c.fail("spec: expected single-sorted value")
	}
	return v.L[0]
}

func derefT(T types.Type) types.Type {
	if p, ok := T.Underlying().(*types.Pointer); ok {
		return p.Elem()
	}
	return T
}

// selectField implements x.f for pointers to structs, Go-side struct locations, struct values and spec tuples.
func (e *Env) selectField(v Val, name string) Val {
	c := e.c
	if v.ST != nil && v.ST.Kind == "tuple" {
		for _, f := range v.ST.Flds {
			if f.Name == name {
				return Val{T: f.T.Go, ST: f.T.S, L: []string{app("T_"+v.ST.Name+"_"+name, v.L[0])}}
			}
		}
		c.fail("spec: tuple %s has no field %s", v.ST.Name, name)
	}
	if v.T == nil {
		c.fail("spec: field %s of untyped value", name)
	}
	obj, path, _ := types.LookupFieldOrMethod(v.T, true, e.pkg, name)
	if obj == nil {
		// unexported field of another package: search manually
		obj, path = lookupFieldAnyPkg(v.T, name)
	}
	fld, ok := obj.(*types.Var)
	if !ok || fld == nil {
		c.fail("spec: %s has no field %s", v.T, name)
	}
	cur := v
	for _, idx := range path {
		cur = inherit(c.fieldOf(e.stOf(v), cur, idx), v)
	}
	return cur
}

func lookupFieldAnyPkg(T types.Type, name string) (types.Object, []int) {
	T = derefT(T)
	st, ok := T.Underlying().(*types.Struct)
	if !ok {
		return nil, nil
	}
	for i := 0; i < st.NumFields(); i++ {
		if st.Field(i).Name() == name {
			return st.Field(i), []int{i}
		}
	}
	for i := 0; i < st.NumFields(); i++ {
		if st.Field(i).Embedded() {
			if o, p := lookupFieldAnyPkg(st.Field(i).Type(), name); o != nil {
				return o, append([]int{i}, p...)
			}
		}
	}
	return nil, nil
}

// fieldOf reads field idx of v (pointer to struct, struct location or struct value) in state st.
func (c *Ctx) fieldOf(st *State, v Val, idx int) Val {
	if p, ok := v.T.Underlying().(*types.Pointer); ok {
		S := p.Elem()
		if v.P != nil {
			// Go-side location of a struct inside a slice element
			np := c.fieldPtr(v, S, idx)
			if np.P != nil && !isStruct(np.P.ElemT) {
				return c.loadPtr(st, np.P)
			}
			if np.P != nil {
				// struct-typed sub-location: return pointer val (auto-deref on next selection)
				return np
			}
			return np
		}
		FT := S.Underlying().(*types.Struct).Field(idx).Type()
		if isStruct(FT) {
			return Val{T: types.NewPointer(FT), L: []string{c.subRef(S, idx, v.L[0])}}
		}
		return c.loadFieldVal(st, S, idx, v.L[0])
	}
	if _, ok := v.T.Underlying().(*types.Struct); ok {
		off, n := c.fieldLeafRange(v.T, idx)
		FT := v.T.Underlying().(*types.Struct).Field(idx).Type()
		return Val{T: FT, L: v.L[off : off+n]}
	}
	c.fail("spec: cannot select field of %s", v.T)
	return Val{}
}

func (e *Env) evalBin(x *EBin) Val {
	c := e.c
	switch x.Op {
	case "&&":
		return boolVal(tAnd(e.evalBool(x.X), e.evalBool(x.Y)))
	case "||":
		return boolVal(tOr(e.evalBool(x.X), e.evalBool(x.Y)))
	case "==>":
		return boolVal(tImp(e.evalBool(x.X), e.evalBool(x.Y)))
	case "<==>":
		return boolVal(tEq(e.evalBool(x.X), e.evalBool(x.Y)))
	case "in":
		coll := e.eval(x.Y)
		if coll.ST != nil && coll.ST.Kind == "set" {
			return boolVal(tSel(coll.L[0], e.evalAs(x.X, coll.ST.Key)))
		}
		if _, ok := coll.T.Underlying().(*types.Map); ok {
			mi := c.mapInfo(coll.T)
			k := e.evalTyped(x.X, mi.K)
			return boolVal(c.mapHas(e.stOf(coll), mi, coll.L[0], k.L[0]))
		}
		c.fail("spec: 'in' needs a map or set")
	}
	a, b := e.unify(e.eval(x.X), e.eval(x.Y))
	if a.Const != nil && b.Const != nil {
		return e.foldConst(x.Op, a.Const.I, b.Const.I)
	}
	switch x.Op {
	case "==", "!=":
		var t string
		if len(a.L) != len(b.L) {
			// nil vs slice / map etc.
			if a.T != nil && isNilT(a.T) {
				a, b = b, a
			}
			if isNilT(b.T) {
				t = c.isNil(a)
			} else {
				c.fail("spec: cannot compare %s and %s", a.T, b.T)
			}
		} else if isNilT(b.T) || isNilT(a.T) {
			if isNilT(a.T) {
				a, b = b, a
			}
			t = c.isNil(a)
		} else {
			var parts []string
			for i := range a.L {
				parts = append(parts, tEq(a.L[i], b.L[i]))
			}
			t = tAnd(parts...)
		}
		if x.Op == "!=" {
			t = tNot(t)
		}
		return boolVal(t)
	case "<", "<=", ">", ">=":
		signed := isSigned(a.T)
		op := map[string][2]string{"<": {"bvult", "bvslt"}, "<=": {"bvule", "bvsle"}, ">": {"bvugt", "bvsgt"}, ">=": {"bvuge", "bvsge"}}[x.Op]
		o := op[0]
		if signed {
			o = op[1]
		}
		e.checkSameWidth(a, b, x.Op)
		return boolVal(app(o, a.L[0], b.L[0]))
	}
	// arithmetic
	if x.Op == "<<" || x.Op == ">>" {
		// shift: count converted to the width of a
		bb := b
		if b.Const == nil {
			bb = Val{T: a.T, L: []string{c.convInt(b.L[0], b.T, a.T)}}
		}
		op := "bvshl"
		if x.Op == ">>" {
			op = "bvlshr"
			if isSigned(a.T) {
				op = "bvashr"
			}
		}
		return Val{T: a.T, L: []string{app(op, a.L[0], bb.L[0])}}
	}
	e.checkSameWidth(a, b, x.Op)
	var t string
	switch x.Op {
	case "+":
		t = app("bvadd", a.L[0], b.L[0])
	case "-":
		t = app("bvsub", a.L[0], b.L[0])
	case "*":
		t = app("bvmul", a.L[0], b.L[0])
	case "/":
		if isSigned(a.T) {
			t = app("bvsdiv", a.L[0], b.L[0])
		} else {
			t = app("bvudiv", a.L[0], b.L[0])
		}
	case "%":
		if isSigned(a.T) {
			t = app("bvsrem", a.L[0], b.L[0])
		} else {
			t = app("bvurem", a.L[0], b.L[0])
		}
	case "&":
		t = app("bvand", a.L[0], b.L[0])
	case "|":
		t = app("bvor", a.L[0], b.L[0])
	case "^":
		t = app("bvxor", a.L[0], b.L[0])
	case "&^":
		t = app("bvand", a.L[0], app("bvnot", b.L[0]))
	default:
		c.fail("spec: operator %s", x.Op)
	}
	return Val{T: a.T, L: []string{t}}
}

func (e *Env) checkSameWidth(a, b Val, op string) {
	if len(a.L) != 1 || len(b.L) != 1 {
		e.c.fail("spec: operator %s on non-scalar", op)
	}
	sa, sb := e.c.leaves(a.T)[0].Sort, e.c.leaves(b.T)[0].Sort
	if sa != sb {
		e.c.fail("spec: operator %s on mismatched types %s and %s (use a conversion)", op, a.T, b.T)
	}
}

func isNilT(T types.Type) bool {
	if T == nil {
		return false
	}
	b, ok := T.(*types.Basic)
	return ok && b.Kind() == types.UntypedNil
}

func (c *Ctx) isNil(v Val) string {
	switch v.T.Underlying().(type) {
	case *types.Interface:
		c.declIface()
		return tEq(v.L[0], "inil")
	case *types.Slice:
		return tEq(v.L[0], "null")
	}
	if v.P != nil {
		return "false"
	}
	return tEq(v.L[0], "null")
}

func (e *Env) foldConst(op string, a, b *big.Int) Val {
	r := new(big.Int)
	switch op {
	case "+":
		r.Add(a, b)
	case "-":
		r.Sub(a, b)
	case "*":
		r.Mul(a, b)
	case "/":
		r.Quo(a, b)
	case "%":
		r.Rem(a, b)
	case "<<":
		r.Lsh(a, uint(b.Uint64()))
	case ">>":
		r.Rsh(a, uint(b.Uint64()))
	case "&":
		r.And(a, b)
	case "|":
		r.Or(a, b)
	case "^":
		r.Xor(a, b)
	case "&^":
		r.AndNot(a, b)
	case "==":
		return boolVal(fmt.Sprint(a.Cmp(b) == 0))
	case "!=":
		return boolVal(fmt.Sprint(a.Cmp(b) != 0))
	case "<":
		return boolVal(fmt.Sprint(a.Cmp(b) < 0))
	case "<=":
		return boolVal(fmt.Sprint(a.Cmp(b) <= 0))
	case ">":
		return boolVal(fmt.Sprint(a.Cmp(b) > 0))
	case ">=":
		return boolVal(fmt.Sprint(a.Cmp(b) >= 0))
	default:
		e.c.fail("spec: constant operator %s", op)
	}
	return Val{Const: &constVal{r}}
}

func (e *Env) evalQuant(x *EQuant) Val {
	c := e.c
	vars := map[string]Val{}
	var binders []string
	for _, b := range x.Vars {
		rt := c.resolveType(e.pkg, b.T)
		sort := c.sortOfRT(rt)
		c.nsym++
		name := fmt.Sprintf("%s!q%d", b.Name, c.nsym)
		binders = append(binders, fmt.Sprintf("(%s %s)", name, sort))
		vars[b.Name] = Val{T: rt.Go, ST: rt.S, L: []string{name}}
	}
	body := e.with(vars).evalBool(x.Body)
	q := "forall"
	if !x.Forall {
		q = "exists"
	}
	return boolVal(fmt.Sprintf("(%s (%s) %s)", q, strings.Join(binders, " "), body))
}

// evalMethod: spec-level call of a deterministic extern method, e.g. req.FARID().
func (e *Env) evalMethod(recv Val, name string, argExprs []Expr) Val {
	c := e.c
	if recv.T == nil {
		c.fail("spec: method call on untyped value")
	}
	obj, _, _ := types.LookupFieldOrMethod(recv.T, true, nil, name)
	fnObj, ok := obj.(*types.Func)
	if !ok {
		c.fail("spec: %s has no method %s", recv.T, name)
	}
	fn := c.W.prog.FuncValue(fnObj)
	if fn == nil || !c.W.isDeterministic(fn) {
		c.fail("spec: method %s.%s is not declared deterministic", recv.T, name)
	}
	sig := fnObj.Type().(*types.Signature)
	args := []Val{recv}
	for i, a := range argExprs {
		args = append(args, e.evalTyped(a, sig.Params().At(i).Type()))
	}
	rv := c.detResults(fnKey(fn), sig.Results(), args)
	return packResults(rv, sig.Results())
}

func (e *Env) evalCall(x *ECall) Val {
	c := e.c
	if x.Recv != nil {
		return e.evalMethod(e.eval(x.Recv), x.Fun, x.Args)
	}
	if x.Pkg != "" {
		if v, ok := e.vars[x.Pkg]; ok {
			return e.evalMethod(v, x.Fun, x.Args)
		}
	}
	if x.Pkg == "" {
		switch x.Fun {
		case "len":
			v := e.eval(x.Args[0])
			switch u := v.T.Underlying().(type) {
			case *types.Slice:
				return Val{T: types.Typ[types.Int], L: []string{v.L[2]}}
			case *types.Map:
				return Val{T: types.Typ[types.Int], L: []string{c.mapLen(e.stOf(v), e.guard, c.mapInfo(v.T), v.L[0])}}
			case *types.Basic:
				c.declStr()
				return Val{T: types.Typ[types.Int], L: []string{app("strlen", v.L[0])}}
			case *types.Pointer:
				if a, ok := u.Elem().Underlying().(*types.Array); ok {
					return Val{T: types.Typ[types.Int], L: []string{bvI(a.Len(), 64)}}
				}
			case *types.Chan:
				return Val{T: types.Typ[types.Int], L: []string{c.chanLen(e.stOf(v), v.L[0])}}
			}
			c.fail("spec: len of %s", v.T)
		case "ownerOf":
			v := e.eval(x.Args[0])
			if len(v.L) != 1 {
				c.fail("spec: ownerOf needs a reference")
			}
			c.declFun("ownerOf", SRef, SRef)
			return Val{T: types.Typ[types.UnsafePointer], L: []string{app("ownerOf", v.L[0])}}
		case "iface":
			// iface(x): the interface value holding x with its static type
			v := e.eval(x.Args[0])
			if v.T == nil || v.Const != nil {
				c.fail("spec: iface() needs a typed value")
			}
			return Val{T: types.NewInterfaceType(nil, nil), L: []string{c.makeIface(v.T, v)}}
		case "sprintf":
			// sprintf(format, args...): the same term the executor builds for fmt.Sprintf with these arguments
			f := e.eval(x.Args[0])
			ts := []string{f.L[0]}
			sorts := []string{SStr}
			for _, a := range x.Args[1:] {
				v := e.eval(a)
				if v.Const != nil {
					v = e.coerceConst(v, nil)
				}
				ts = append(ts, c.fmtArg(c.makeIface(v.T, v)))
				sorts = append(sorts, SStr)
			}
			return Val{T: types.Typ[types.String], L: []string{c.sprintfTerm(ts, sorts)}}
		case "val":
			v := e.eval(x.Args[0])
			if len(v.Tup) < 1 {
				c.fail("spec: val() needs a call with results")
			}
			return v.Tup[0]
		case "ok":
			v := e.eval(x.Args[0])
			if len(v.Tup) < 2 {
				c.fail("spec: ok() needs a call returning (value, error)")
			}
			return boolVal(tEq(v.Tup[len(v.Tup)-1].L[0], "inil"))
		case "allocated":
			v := e.eval(x.Args[0])
			return boolVal(tSel(c.allocComp(e.st), v.L[0]))
		case "fresh":
			// not allocated in the pre-state, non-nil
			v := e.eval(x.Args[0])
			if e.old == nil {
				c.fail("spec: fresh() needs a pre-state")
			}
			return boolVal(tAnd(tNot(tEq(v.L[0], "null")), tNot(tSel(c.allocComp(e.old), v.L[0]))))
		case "add", "remove":
			s := e.eval(x.Args[0])
			if s.ST == nil || s.ST.Kind != "set" {
				c.fail("spec: %s needs a set", x.Fun)
			}
			k := e.evalAs(x.Args[1], s.ST.Key)
			b := "true"
			if x.Fun == "remove" {
				b = "false"
			}
			return Val{ST: s.ST, L: []string{tStore(s.L[0], k, b)}}
		case "restrict":
			// restrict(S, forall k T :: cond): the subset of S whose elements satisfy cond
			sv := e.eval(x.Args[0])
			q, ok := x.Args[1].(*EQuant)
			if !ok || sv.ST == nil || sv.ST.Kind != "set" || len(q.Vars) != 1 {
				c.fail("spec: restrict(set, forall k T :: cond)")
			}
			sort := c.sortOfRT(&resolvedType{S: sv.ST})
			ks := c.sortOfRT(sv.ST.Key)
			r := c.fresh("restricted", sort)
			c.nsym++
			bv := fmt.Sprintf("%s!q%d", q.Vars[0].Name, c.nsym)
			body := e.with(map[string]Val{q.Vars[0].Name: {T: sv.ST.Key.Go, ST: sv.ST.Key.S, L: []string{bv}}}).evalBool(q.Body)
			c.assume("true", fmt.Sprintf("(forall ((%s %s)) (! (= (select %s %s) (and (select %s %s) %s)) :pattern ((select %s %s))))", bv, ks, r, bv, sv.L[0], bv, body, r, bv))
			return Val{ST: sv.ST, L: []string{r}}
		case "disjoint":
			a, b := e.eval(x.Args[0]), e.eval(x.Args[1])
			// two slices do not share any element
			return boolVal(tOr(tNot(tEq(a.L[0], b.L[0])), app("bvule", app("bvadd", a.L[1], a.L[2]), b.L[1]), app("bvule", app("bvadd", b.L[1], b.L[2]), a.L[1])))
		case "separate":
			// two slices live in different backing arrays
			a, b := e.eval(x.Args[0]), e.eval(x.Args[1])
			return boolVal(tNot(tEq(a.L[0], b.L[0])))
		case "closed":
			v := e.eval(x.Args[0])
			return boolVal(c.chanClosed(e.stOf(v), v.L[0]))
		case "chhead", "chtail":
			v := e.eval(x.Args[0])
			key := "CH|head"
			if x.Fun == "chtail" {
				key = "CH|tail"
			}
			return Val{T: types.Typ[types.Int], L: []string{tSel(c.chGet(e.stOf(v), key), v.L[0])}}
		case "chat":
			// chat(ch, i): the element stored at absolute buffer position i of channel ch
			v := e.eval(x.Args[0])
			ch, ok := v.T.Underlying().(*types.Chan)
			if !ok {
				c.fail("spec: chat needs a channel")
			}
			i := e.evalIndex(x.Args[1])
			out := Val{T: ch.Elem(), St: v.St}
			for _, k := range c.chanBufKeys(ch.Elem()) {
				out.L = append(out.L, tSel(tSel(c.comp(e.stOf(v), k.Path, arrSort(SRef, arrSort(bvSort(64), k.Sort))), v.L[0]), i))
			}
			return out
		case "cap":
			v := e.eval(x.Args[0])
			return Val{T: types.Typ[types.Int], L: []string{c.chanCap(e.stOf(v), v.L[0])}}
		}
		if flds, ok := c.W.specTypes[x.Fun]; ok {
			rt := c.resolveType(e.pkg, &TypeExpr{Kind: "named", Name: x.Fun})
			c.sortOfRT(rt)
			if len(flds) != len(x.Args) {
				c.fail("spec: constructor %s arity", x.Fun)
			}
			var args []string
			for i, a := range x.Args {
				args = append(args, e.evalAs(a, rt.S.Flds[i].T))
			}
			return Val{ST: rt.S, L: []string{app("mk_T_"+x.Fun, args...)}}
		}
		if p, ok := c.W.pures[x.Fun]; ok && p.Opaque {
			return e.evalOpaque(p, x)
		}
		if p, ok := c.W.pures[x.Fun]; ok {
			if len(p.Params) != len(x.Args) {
				c.fail("spec: %s expects %d arguments", x.Fun, len(p.Params))
			}
			if e.depth > 40 {
				c.fail("spec: definition %s too deeply nested (recursive?)", x.Fun)
			}
			vars := map[string]Val{}
			for i, b := range p.Params {
				rt := c.resolveType(e.pkg, b.T)
				v := e.eval(x.Args[i])
				if v.Const != nil {
					v = e.coerceConst(v, rt.Go)
				}
				vars[b.Name] = v
			}
			// definitions are evaluated in the caller's state but with only their own parameters visible
			n := *e
			n.vars = vars
			n.depth = e.depth + 1
			return n.eval(p.Body)
		}
		if u, ok := c.W.ufuncs[x.Fun]; ok {
			if len(u.Params) != len(x.Args) {
				c.fail("spec: %s expects %d arguments", x.Fun, len(u.Params))
			}
			var sorts, args []string
			for i, pt := range u.Params {
				rt := c.resolveType(e.pkg, pt)
				sorts = append(sorts, c.sortOfRT(rt))
				args = append(args, e.evalAs(x.Args[i], rt))
			}
			rt := c.resolveType(e.pkg, u.Ret)
			c.declFun("uf_"+u.Name, strings.Join(sorts, " "), c.sortOfRT(rt))
			if len(args) == 0 {
				return Val{T: rt.Go, ST: rt.S, L: []string{"uf_" + u.Name}}
			}
			return Val{T: rt.Go, ST: rt.S, L: []string{app("uf_"+u.Name, args...)}}
		}
	}
	// deterministic extern function: pkg.Fun(args)
	if x.Pkg != "" {
		for _, p := range c.W.pkgsNamed(e.pkg, x.Pkg) {
			if obj, ok := p.Scope().Lookup(x.Fun).(*types.Func); ok {
				fn := c.W.prog.FuncValue(obj)
				if fn != nil && c.W.isDeterministic(fn) {
					sig := obj.Type().(*types.Signature)
					var args []Val
					for i, a := range x.Args {
						PT := sig.Params().At(i).Type()
						v := e.evalTyped(a, PT)
						if pt, ok := v.T.Underlying().(*types.Pointer); ok && isStruct(PT) && types.Identical(pt.Elem(), PT) && v.P == nil {
							v = c.loadStruct(e.stOf(v), PT, v.L[0])
						}
						args = append(args, v)
					}
					return packResults(c.detResults(fnKey(fn), sig.Results(), args), sig.Results())
				}
			}
		}
	}
	// conversion to a named type: pkg.T(x) or T(x)
	if len(x.Args) == 1 {
		if T := c.W.resolveNamedType(e.pkg, x.Pkg, x.Fun); T != nil {
			v := e.eval(x.Args[0])
			if v.Const != nil {
				return e.coerceConst(v, T)
			}
			if isInteger(T) {
				return Val{T: T, L: []string{c.convInt(v.L[0], v.T, T)}}
			}
			return Val{T: T, L: v.L}
		}
	}
	c.fail("spec: unknown function %s", x.Fun)
	return Val{}
}

// convInt converts an integer term between Go integer types.
func (c *Ctx) convInt(t string, from, to types.Type) string {
	wf := sortWidth(c.leaves(from)[0].Sort)
	wt := sortWidth(c.leaves(to)[0].Sort)
	if wf == 0 || wt == 0 {
		c.fail("integer conversion between %s and %s", from, to)
	}
	switch {
	case wf == wt:
		return t
	case wf > wt:
		return app(fmt.Sprintf("(_ extract %d 0)", wt-1), t)
	default:
		if isSigned(from) {
			return app(fmt.Sprintf("(_ sign_extend %d)", wt-wf), t)
		}
		return app(fmt.Sprintf("(_ zero_extend %d)", wt-wf), t)
	}
}

func (c *Ctx) declIface() {}

func (c *Ctx) declStr() {}

// ifacePayload returns the payload of interface term x viewed as concrete type T.
func (c *Ctx) ifacePayload(x string, T types.Type) Val {
	c.declIface()
	ls := c.leaves(T)
	v := Val{T: T, L: make([]string, len(ls))}
	for i, l := range ls {
		fn := fmt.Sprintf("ipay_%s_%d", sanitize(c.typeKey(T)), i)
		c.declFun(fn, SIface, l.Sort)
		v.L[i] = app(fn, x)
	}
	return v
}

// makeIface builds the interface value holding v (of concrete type T).
func (c *Ctx) makeIface(T types.Type, v Val) string {
	c.declIface()
	if types.IsInterface(T) {
		return v.L[0]
	}
	ls := c.leaves(T)
	var sorts []string
	for _, l := range ls {
		sorts = append(sorts, l.Sort)
	}
	fn := "mk_" + sanitize(c.typeKey(T))
	c.declFun(fn, strings.Join(sorts, " "), SIface)
	if len(ls) == 0 {
		c.raw("mkax:"+fn, fmt.Sprintf("(assert (= (itag %s) %s))", fn, c.typeID(T)))
		return fn
	}
	if v.P != nil {
		c.fail("Go-side pointer stored in interface")
	}
	// constructor axioms, once per type: tag and payload projections of mk_T(v...)
	if !c.declared["mkax:"+fn] {
		var binders, vars, facts []string
		for i, l := range ls {
			b := fmt.Sprintf("v%d", i)
			binders = append(binders, fmt.Sprintf("(%s %s)", b, l.Sort))
			vars = append(vars, b)
		}
		appl := app(fn, vars...)
		facts = append(facts, tEq(app("itag", appl), c.typeID(T)))
		for i, l := range ls {
			pf := fmt.Sprintf("ipay_%s_%d", sanitize(c.typeKey(T)), i)
			c.declFun(pf, SIface, l.Sort)
			facts = append(facts, tEq(app(pf, appl), vars[i]))
		}
		// an interface value of dynamic type T is mk_T applied to its payload
		var projs []string
		for i := range ls {
			projs = append(projs, app(fmt.Sprintf("ipay_%s_%d", sanitize(c.typeKey(T)), i), "x"))
		}
		surj := fmt.Sprintf("(assert (forall ((x Iface)) (! (=> (= (itag x) %s) (= x %s)) :pattern (%s))))", c.typeID(T), app(fn, projs...), projs[0])
		c.raw("mkax:"+fn, fmt.Sprintf("(assert (forall (%s) (! %s :pattern (%s))))\n%s", strings.Join(binders, " "), tAnd(facts...), appl, surj))
	}
	t := app(fn, v.L...)
	for _, l := range v.L {
		if strings.Contains(l, "!q") {
			return t // under a binder: cannot be named at top level
		}
	}
	name := c.define("iface", SIface, t)
	return name
}

// opTemplate: the body of an opaque predicate evaluated once over placeholder parameters (@P<i>@) and placeholder
// heap components (@C:<key>@).  Instances are obtained by textual substitution, which keeps the shape of the
// uninterpreted function's argument list identical for every instance.
type opTemplate struct {
	body     string
	keys     []string
	sorts    map[string]string
	rows     map[string][]string // per key: index-term templates when every read is select(C, t) with t free of the body's bound variables
	asserts  []string            // facts emitted while evaluating the body (templates), re-emitted per instance
	fn       string
	fnSorts  []string
}

// evalTemplateBody evaluates p's body over placeholders.  With nested set, nested opaque predicates that the current
// function reveals contribute "atom and body"; otherwise they stay atoms.
func (c *Ctx) evalTemplateBody(e *Env, p *PureDecl, nested bool) (body string, asserts []string, sorts map[string]string, argSorts []string, nsym0 int) {
	vars := map[string]Val{}
	for i, b := range p.Params {
		rt := c.resolveType(e.pkg, b.T)
		vars[b.Name] = Val{T: rt.Go, ST: rt.S, L: []string{fmt.Sprintf("@P%d@", i)}}
		argSorts = append(argSorts, c.sortOfRT(rt))
	}
	st := &State{heap: map[string]string{}, cells: map[*Cell]Val{}, tmpl: map[string]string{}}
	n := &Env{c: c, st: st, vars: vars, pkg: e.pkg, guard: "true", depth: e.depth + 1}
	nsym0 = c.nsym
	items0 := len(c.items)
	savedHide := c.tmplHide
	c.tmplHide = !nested
	body = n.evalBool(p.Body)
	c.tmplHide = savedHide
	// collect what the evaluation emitted: abbreviations are inlined, facts become templates, declarations stay
	var keep []Item
	defs := map[string]string{}
	for _, it := range c.items[items0:] {
		switch it.Kind {
		case "def":
			defs[it.Name] = it.Body
		case "assert":
			asserts = append(asserts, it.Body)
		case "decl":
			c.fail("spec: opaque predicate %s introduces a fresh symbol (%s); not supported", p.Name, it.Name)
		default:
			keep = append(keep, it)
		}
	}
	c.items = append(c.items[:items0], keep...)
	expand := func(s string) string {
		for round := 0; round < 8; round++ {
			changed := false
			for name, b := range defs {
				if strings.Contains(s, name) {
					s = replaceWord2(s, name, b)
					changed = true
				}
			}
			if !changed {
				break
			}
		}
		return s
	}
	body = expand(body)
	for i := range asserts {
		asserts[i] = expand(asserts[i])
	}
	return body, asserts, st.tmpl, argSorts, nsym0
}

// opaqueTemplate: signature (uninterpreted function, footprint rows) and hidden body of p.  Nested opaque predicates
// are always atoms here, so the signature does not depend on what the function under verification reveals.
func (c *Ctx) opaqueTemplate(e *Env, p *PureDecl) *opTemplate {
	if c.opTmpl == nil {
		c.opTmpl = map[string]*opTemplate{}
	}
	if t, ok := c.opTmpl[p.Name]; ok {
		return t
	}
	t := &opTemplate{sorts: map[string]string{}, rows: map[string][]string{}}
	var argSorts []string
	var tm map[string]string
	var nsym0 int
	t.body, t.asserts, tm, argSorts, nsym0 = c.evalTemplateBody(e, p, false)
	for k, srt := range tm {
		t.keys = append(t.keys, k)
		t.sorts[k] = srt
	}
	sortStrings(t.keys)
	all := t.body + " " + strings.Join(t.asserts, " ")
	sig := p.Name
	t.fnSorts = append(t.fnSorts, argSorts...)
	for _, k := range t.keys {
		srt := t.sorts[k]
		rows, ok := selectedRows(all, "@C:"+k+"@", nsym0)
		elem := ""
		if ok && strings.HasPrefix(srt, "(Array Ref ") {
			elem = srt[len("(Array Ref ") : len(srt)-1]
		}
		if ok && elem != "" && len(rows) > 0 && len(rows) <= 8 {
			t.rows[k] = rows
			for range rows {
				t.fnSorts = append(t.fnSorts, elem)
			}
			sig += fmt.Sprintf("|%s:%d", k, len(rows))
		} else {
			t.fnSorts = append(t.fnSorts, srt)
			sig += "|" + k
		}
	}
	t.fn = fmt.Sprintf("op_%s_%x", p.Name, hashStr(sig)&0xffffff)
	c.declFun(t.fn, strings.Join(t.fnSorts, " "), SBool)
	c.opTmpl[p.Name] = t
	return t
}

// revealedBody: p's body with the nested predicates revealed by the function under verification expanded.
// Cached per reveal set (a `uses ... hiding` clause changes it temporarily).
func (c *Ctx) revealedBody(e *Env, p *PureDecl, t *opTemplate) (string, []string, map[string]string) {
	var rv []string
	if c.top != nil {
		for k, on := range c.top.Reveal {
			if on {
				rv = append(rv, k)
			}
		}
	}
	sortStrings(rv)
	key := p.Name + "|" + strings.Join(rv, ",")
	if c.opReveal == nil {
		c.opReveal = map[string]*opTemplate{}
	}
	if r, ok := c.opReveal[key]; ok {
		return r.body, r.asserts, r.sorts
	}
	r := &opTemplate{}
	r.body, r.asserts, r.sorts, _, _ = c.evalTemplateBody(e, p, true)
	c.opReveal[key] = r
	return r.body, r.asserts, r.sorts
}

func (e *Env) evalOpaque(p *PureDecl, x *ECall) Val {
	c := e.c
	if len(p.Params) != len(x.Args) {
		c.fail("spec: %s expects %d arguments", p.Name, len(p.Params))
	}
	var argTerms []string
	for i, b := range p.Params {
		rt := c.resolveType(e.pkg, b.T)
		v := e.eval(x.Args[i])
		if v.Const != nil {
			v = e.coerceConst(v, rt.Go)
		}
		if len(v.L) != 1 {
			c.fail("spec: opaque predicate %s needs single-sorted arguments", p.Name)
		}
		argTerms = append(argTerms, v.L[0])
	}
	t := c.opaqueTemplate(e, p)
	if e.st.tmpl != nil {
		// nested inside another template: stay symbolic
		for _, k := range t.keys {
			c.comp(e.st, k, t.sorts[k])
		}
	}
	subst := func(s string) string {
		for i, a := range argTerms {
			s = strings.ReplaceAll(s, fmt.Sprintf("@P%d@", i), a)
		}
		for _, k := range t.keys {
			ph := "@C:" + k + "@"
			if strings.Contains(s, ph) {
				s = strings.ReplaceAll(s, ph, c.comp(e.st, k, t.sorts[k]))
			}
		}
		return s
	}
	terms := append([]string{}, argTerms...)
	for _, k := range t.keys {
		C := c.comp(e.st, k, t.sorts[k])
		if rows, ok := t.rows[k]; ok {
			for _, r := range rows {
				terms = append(terms, tSel(C, subst(r)))
			}
		} else {
			terms = append(terms, C)
		}
	}
	reveal := c.top != nil && c.top.Reveal[p.Name]
	bound := false
	for _, a := range terms {
		if strings.Contains(a, "!q") || strings.Contains(a, "@P") {
			bound = true // instance under a quantifier (or inside a template): cannot be named at top level
		}
	}
	var atom string
	if bound {
		atom = app(t.fn, terms...)
	} else {
		atom = c.define("op_"+p.Name, SBool, app(t.fn, terms...))
	}
	if reveal && !(e.st.tmpl != nil && c.tmplHide) {
		// where the definition is revealed the atom stands for "atom and body": assumptions get the body directly
		// (quantifiers stay in positive position), goals are split into the body's conjuncts by splitGoal.
		// Nested inside another predicate's template the body keeps the outer placeholders.
		rb, ras, rsorts := c.revealedBody(e, p, t)
		substR := func(s string) string {
			s = subst(s)
			for k, srt := range rsorts {
				ph := "@C:" + k + "@"
				if strings.Contains(s, ph) {
					s = strings.ReplaceAll(s, ph, c.comp(e.st, k, srt))
				}
			}
			return s
		}
		body := substR(rb)
		for _, a := range ras {
			if !bound && e.st.tmpl == nil {
				c.assume("true", substR(a))
			}
		}
		return boolVal(tAnd(atom, body))
	}
	return boolVal(atom)
}

// expandDefs replaces abbreviations (define-fun items) created after symbol counter n0 by their bodies.
func (c *Ctx) expandDefs(t string, n0 int) string {
	defs := map[string]string{}
	for i := len(c.items) - 1; i >= 0; i-- {
		it := c.items[i]
		if it.Kind != "def" {
			continue
		}
		k := strings.LastIndex(it.Name, "!")
		if k < 0 {
			continue
		}
		var num int
		fmt.Sscanf(it.Name[k+1:], "%d", &num)
		if num <= n0 {
			break
		}
		defs[it.Name] = it.Body
	}
	if len(defs) == 0 {
		return t
	}
	for round := 0; round < 6; round++ {
		changed := false
		for name, body := range defs {
			if strings.Contains(t, name) {
				t = replaceWord2(t, name, body)
				changed = true
			}
		}
		if !changed {
			break
		}
	}
	return t
}

func replaceWord2(s, w, r string) string {
	var b strings.Builder
	i := 0
	for i < len(s) {
		j := strings.Index(s[i:], w)
		if j < 0 {
			b.WriteString(s[i:])
			break
		}
		j += i
		before := j == 0 || !isSymCh(s[j-1])
		after := j+len(w) >= len(s) || !isSymCh(s[j+len(w)])
		b.WriteString(s[i:j])
		if before && after {
			b.WriteString(r)
		} else {
			b.WriteString(w)
		}
		i = j + len(w)
	}
	return b.String()
}

func isSymCh(c byte) bool {
	return c == '_' || c == '!' || c == '.' || c >= '0' && c <= '9' || c >= 'a' && c <= 'z' || c >= 'A' && c <= 'Z'
}

// selectedRows: if every occurrence of symbol C in t is the array operand of a select whose index term contains no
// bound variable introduced after n0, return the distinct index terms in order of appearance.
func selectedRows(t, C string, n0 int) ([]string, bool) {
	var rows []string
	seen := map[string]bool{}
	i := 0
	for {
		j := strings.Index(t[i:], C)
		if j < 0 {
			break
		}
		j += i
		end := j + len(C)
		if (j > 0 && isSymCh(t[j-1])) || (end < len(t) && isSymCh(t[end])) {
			i = end
			continue // part of a longer symbol
		}
		const pre = "(select "
		if j < len(pre) || t[j-len(pre):j] != pre || end >= len(t) || t[end] != ' ' {
			return nil, false
		}
		// parse the index term following "C "
		k := end + 1
		depth := 0
		start := k
		for k < len(t) {
			ch := t[k]
			if ch == '(' {
				depth++
			} else if ch == ')' {
				if depth == 0 {
					break
				}
				depth--
				if depth == 0 {
					k++
					break
				}
			} else if ch == ' ' && depth == 0 {
				break
			}
			k++
		}
		idx := t[start:k]
		// bound variables of the body itself
		for m := 0; m+2 < len(idx); m++ {
			if idx[m] == '!' && idx[m+1] == 'q' {
				var num int
				fmt.Sscanf(idx[m+2:], "%d", &num)
				if num > n0 {
					return nil, false
				}
			}
		}
		if !seen[idx] {
			seen[idx] = true
			rows = append(rows, idx)
		}
		i = k
	}
	return rows, true
}

func sortStrings(a []string) {
	for i := 1; i < len(a); i++ {
		for j := i; j > 0 && a[j] < a[j-1]; j-- {
			a[j], a[j-1] = a[j-1], a[j]
		}
	}
}
