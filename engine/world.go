package main

import (
	"fmt"
	"go/ast"
	"go/token"
	"go/types"
	"os"
	"path/filepath"
	"sort"
	"strings"

	"golang.org/x/tools/go/packages"
	"golang.org/x/tools/go/ssa"
	"golang.org/x/tools/go/ssa/ssautil"
)

type World struct {
	tags         []TagDecl
	writers      []WritersDecl
	confined     []ConfinedDecl
	rparens      map[*ssa.Function]map[token.Pos]token.Pos
	callTexts    map[*ssa.Function]map[token.Pos]string
	callTextsExt map[*ssa.Function]map[token.Pos]string // text of the helper bodies called in a call's arguments
	cw           *confineWorld
	repo         string
	fset         *token.FileSet
	prog         *ssa.Program
	pkgs         []*packages.Package
	allPkgs      map[string]*packages.Package // by path
	byName       map[string][]*packages.Package
	specs        []*SpecFile
	contracts    map[string]*FuncContract // by ssa function key (see fnKey)
	ifaceC       map[string]*FuncContract // interface method contracts: "pkg.Iface.Method"
	ghosts       map[string]GhostDecl
	ufuncs       map[string]UFuncDecl
	pures        map[string]*PureDecl
	specTypes    map[string][]Binder
	axioms       []Clause
	axiomPkg     []string
	fnByKey      map[string]*ssa.Function
	modPath      string
	inlinePkg    map[string]bool
	writeSets    map[*ssa.Function]map[string]bool
	implCache    map[string][]types.Type
	srcCache     map[string][]byte
	determ       map[string]bool
}

func (w *World) isRepoPkg(p *types.Package) bool {
	return p != nil && strings.HasPrefix(p.Path(), w.modPath)
}

func loadWorld(repo string, extraPatterns []string) (*World, error) {
	w := &World{repo: repo, contracts: map[string]*FuncContract{}, ifaceC: map[string]*FuncContract{}, ghosts: map[string]GhostDecl{},
		ufuncs: map[string]UFuncDecl{}, pures: map[string]*PureDecl{}, specTypes: map[string][]Binder{}, fnByKey: map[string]*ssa.Function{},
		allPkgs: map[string]*packages.Package{}, byName: map[string][]*packages.Package{}, inlinePkg: map[string]bool{},
		writeSets: map[*ssa.Function]map[string]bool{}, implCache: map[string][]types.Type{}, srcCache: map[string][]byte{}}
	w.fset = token.NewFileSet()
	cfg := &packages.Config{Mode: packages.LoadAllSyntax, Dir: repo, BuildFlags: []string{"-tags=verif"}, Fset: w.fset,
		Env: append(os.Environ(), "GOFLAGS=-mod=mod", "GOPROXY=off", "GOSUMDB=off", "GOTOOLCHAIN=local")}
	pats := append([]string{"./internal/...", "./pkg/...", "./cmd/..."}, extraPatterns...)
	pkgs, err := packages.Load(cfg, pats...)
	if err != nil {
		return nil, err
	}
	nerr := 0
	packages.Visit(pkgs, nil, func(p *packages.Package) {
		for _, e := range p.Errors {
			if strings.HasPrefix(p.PkgPath, "github.com/free5gc/go-upf") {
				fmt.Fprintf(os.Stderr, "load error: %s: %v\n", p.PkgPath, e)
				nerr++
			}
		}
		w.allPkgs[p.PkgPath] = p
		w.byName[p.Name] = append(w.byName[p.Name], p)
	})
	if nerr > 0 {
		return nil, fmt.Errorf("%d load errors in repository packages", nerr)
	}
	w.pkgs = pkgs
	prog, _ := ssautil.AllPackages(pkgs, ssa.GlobalDebug|ssa.InstantiateGenerics)
	prog.Build()
	w.prog = prog
	w.modPath = "github.com/free5gc/go-upf"
	w.inlinePkg["encoding/binary"] = true
	w.inlinePkg["github.com/wmnsk/go-pfcp/message"] = true
	for fn := range ssautil.AllFunctions(prog) {
		if fn.Pkg == nil || fn.Synthetic != "" && fn.Blocks == nil {
			continue
		}
		w.fnByKey[fnKey(fn)] = fn
	}
	// contracts in the repository
	var files []string
	filepath.Walk(repo, func(path string, info os.FileInfo, err error) error {
		if err == nil && !info.IsDir() && info.Name() == "zz_contracts_verif.go" {
			files = append(files, path)
		}
		return nil
	})
	sort.Strings(files)
	for _, f := range files {
		sf, err := readSpecFile(f, false)
		if err != nil {
			return nil, err
		}
		w.addSpec(sf)
	}
	// extern contracts
	self, _ := os.Executable()
	extDir := filepath.Join(filepath.Dir(filepath.Dir(self)), "contracts", "extern")
	if d := os.Getenv("GOVC_EXTERN"); d != "" {
		extDir = d
	}
	efiles, _ := filepath.Glob(filepath.Join(extDir, "*.spec"))
	sort.Strings(efiles)
	for _, f := range efiles {
		sf, err := readSpecFile(f, true)
		if err != nil {
			return nil, err
		}
		w.addSpec(sf)
	}
	return w, nil
}

func (w *World) addSpec(sf *SpecFile) {
	w.specs = append(w.specs, sf)
	for _, g := range sf.Ghosts {
		w.ghosts[g.Name] = g
	}
	for _, u := range sf.UFuncs {
		w.ufuncs[u.Name] = u
	}
	for _, p := range sf.Pures {
		w.pures[p.Name] = p
	}
	for n, t := range sf.Types {
		w.specTypes[n] = t
	}
	w.tags = append(w.tags, sf.Tags...)
	w.writers = append(w.writers, sf.Writers...)
	w.confined = append(w.confined, sf.Confined...)
	w.axioms = append(w.axioms, sf.Axioms...)
	for range sf.Axioms {
		w.axiomPkg = append(w.axiomPkg, sf.PkgName)
	}
	if w.determ == nil {
		w.determ = map[string]bool{}
	}
	for _, d := range sf.Determ {
		w.determ[d] = true
	}
	for _, fc := range sf.Funcs {
		w.contracts[fc.Key()] = fc
	}
}

// fnKey: "pkgname.Recv.Name" or "pkgname.Name"; closures: parent key + "$n".
func fnKey(fn *ssa.Function) string {
	if fn.Parent() != nil {
		return fnKey(fn.Parent()) + "$" + strings.TrimPrefix(fn.Name(), fn.Parent().Name()+"$")
	}
	pkg := ""
	if fn.Pkg != nil {
		pkg = fn.Pkg.Pkg.Name()
	}
	if recv := fn.Signature.Recv(); recv != nil {
		T := recv.Type()
		if p, ok := T.(*types.Pointer); ok {
			T = p.Elem()
		}
		if n, ok := T.(*types.Named); ok {
			if n.Obj().Pkg() != nil {
				pkg = n.Obj().Pkg().Name()
			}
			return pkg + "." + n.Obj().Name() + "." + fn.Name()
		}
	}
	return pkg + "." + fn.Name()
}

func (w *World) contractFor(fn *ssa.Function) *FuncContract {
	return w.contracts[fnKey(fn)]
}

// ifaceContract finds the contract attached to an interface method.
func (w *World) ifaceContract(T types.Type, method string) *FuncContract {
	if n, ok := T.(*types.Named); ok && n.Obj().Pkg() != nil {
		return w.contracts[n.Obj().Pkg().Name()+"."+n.Obj().Name()+"."+method]
	}
	return nil
}

// resolveNamedType resolves pkg.Name (or Name in the context package) to a Go type.
func (w *World) resolveNamedType(ctxPkg *types.Package, pkg, name string) types.Type {
	switch name {
	case "struct{}":
		return types.NewStruct(nil, nil)
	case "interface{}":
		return types.NewInterfaceType(nil, nil)
	case "error":
		return types.Universe.Lookup("error").Type()
	}
	if pkg == "" {
		if o := types.Universe.Lookup(name); o != nil {
			if tn, ok := o.(*types.TypeName); ok {
				return tn.Type()
			}
		}
		if ctxPkg != nil {
			if o := ctxPkg.Scope().Lookup(name); o != nil {
				if tn, ok := o.(*types.TypeName); ok {
					return tn.Type()
				}
			}
		}
		return nil
	}
	for _, p := range w.pkgsNamed(ctxPkg, pkg) {
		if o := p.Scope().Lookup(name); o != nil {
			if tn, ok := o.(*types.TypeName); ok {
				return tn.Type()
			}
		}
	}
	return nil
}

// pkgsNamed returns candidate packages for a package qualifier: imports of ctxPkg first, then any loaded package of that name.
func (w *World) pkgsNamed(ctxPkg *types.Package, name string) []*types.Package {
	var out []*types.Package
	if ctxPkg != nil {
		if ctxPkg.Name() == name {
			out = append(out, ctxPkg)
		}
		for _, imp := range ctxPkg.Imports() {
			if imp.Name() == name {
				out = append(out, imp)
			}
		}
	}
	var rest []*packages.Package
	rest = append(rest, w.byName[name]...)
	sort.Slice(rest, func(i, j int) bool { return rest[i].PkgPath < rest[j].PkgPath })
	for _, p := range rest {
		dup := false
		for _, o := range out {
			if o == p.Types {
				dup = true
			}
		}
		if !dup && p.Types != nil {
			out = append(out, p.Types)
		}
	}
	return out
}

func (w *World) lookupConst(ctxPkg *types.Package, pkg, name string) *types.Const {
	var cands []*types.Package
	if pkg == "" {
		if ctxPkg != nil {
			cands = []*types.Package{ctxPkg}
		}
	} else {
		cands = w.pkgsNamed(ctxPkg, pkg)
	}
	for _, p := range cands {
		if o := p.Scope().Lookup(name); o != nil {
			if c, ok := o.(*types.Const); ok {
				return c
			}
		}
	}
	return nil
}

// implementers returns the concrete named types in repository packages whose method set satisfies iface.
func (w *World) implementers(iface types.Type) []types.Type {
	key := types.TypeString(iface, nil)
	if v, ok := w.implCache[key]; ok {
		return v
	}
	it, ok := iface.Underlying().(*types.Interface)
	var out []types.Type
	if ok && it.NumMethods() > 0 {
		var paths []string
		for p := range w.allPkgs {
			paths = append(paths, p)
		}
		sort.Strings(paths)
		for _, path := range paths {
			p := w.allPkgs[path]
			if !strings.HasPrefix(path, w.modPath) || p.Types == nil {
				continue
			}
			sc := p.Types.Scope()
			for _, n := range sc.Names() {
				tn, ok := sc.Lookup(n).(*types.TypeName)
				if !ok || tn.IsAlias() {
					continue
				}
				T := tn.Type()
				if types.IsInterface(T) {
					continue
				}
				if types.Implements(T, it) {
					out = append(out, T)
				} else if types.Implements(types.NewPointer(T), it) {
					out = append(out, types.NewPointer(T))
				}
			}
		}
	}
	w.implCache[key] = out
	return out
}

// loop descriptors -----------------------------------------------------------

type loopStmt struct {
	node ast.Node
	desc string
}

func (w *World) src(file string) []byte {
	if b, ok := w.srcCache[file]; ok {
		return b
	}
	b, _ := os.ReadFile(file)
	w.srcCache[file] = b
	return b
}

func (w *World) nodeText(n ast.Node) string {
	p0, p1 := w.fset.Position(n.Pos()), w.fset.Position(n.End())
	b := w.src(p0.Filename)
	if p0.Offset < 0 || p1.Offset > len(b) || p0.Offset > p1.Offset {
		return ""
	}
	return string(b[p0.Offset:p1.Offset])
}

// loopStmts lists the for/range statements of a function in source order (closures excluded).
func (w *World) loopStmts(fn *ssa.Function) []loopStmt {
	syn := fn.Syntax()
	if syn == nil {
		return nil
	}
	var body *ast.BlockStmt
	switch s := syn.(type) {
	case *ast.FuncDecl:
		body = s.Body
	case *ast.FuncLit:
		body = s.Body
	}
	if body == nil {
		return nil
	}
	var out []loopStmt
	counts := map[string]int{}
	ast.Inspect(body, func(n ast.Node) bool {
		switch s := n.(type) {
		case *ast.FuncLit:
			return false
		case *ast.RangeStmt:
			d := "range(" + normWS(w.nodeText(s.X)) + ")"
			counts[d]++
			if counts[d] > 1 {
				d = fmt.Sprintf("%s#%d", d, counts[d])
			}
			out = append(out, loopStmt{s, d})
		case *ast.ForStmt:
			d := "for("
			if s.Cond != nil {
				d += normWS(w.nodeText(s.Cond))
			}
			d += ")"
			counts[d]++
			if counts[d] > 1 {
				d = fmt.Sprintf("%s#%d", d, counts[d])
			}
			out = append(out, loopStmt{s, d})
		}
		return true
	})
	return out
}

// isDeterministic: extern function whose results are modelled as uninterpreted functions of its arguments.
func (w *World) isDeterministic(fn *ssa.Function) bool {
	k := fnKey(fn)
	if w.determ[k] {
		return true
	}
	if i := strings.LastIndex(k, "."); i > 0 && w.determ[k[:i]+".*"] {
		return true
	}
	if fc := w.contracts[k]; fc != nil && fc.Flags["deterministic"] {
		return true
	}
	return false
}

// tagObligations: syntactic obligations "field X of struct T carries exactly this tag" for the given property.
func (w *World) tagObligations(prop string) *FuncResult {
	res := &FuncResult{Fn: "struct-tags", StrLits: map[string]string{}}
	for _, td := range w.tags {
		hit := false
		for _, p := range td.Serves {
			if p == prop {
				hit = true
			}
		}
		if !hit {
			continue
		}
		parts := strings.Split(td.Path, ".")
		got, found := "", false
		if len(parts) == 3 {
			for _, pkg := range w.prog.AllPackages() {
				if pkg.Pkg.Name() != parts[0] {
					continue
				}
				obj := pkg.Pkg.Scope().Lookup(parts[1])
				if obj == nil {
					continue
				}
				if st, ok := obj.Type().Underlying().(*types.Struct); ok {
					for i := 0; i < st.NumFields(); i++ {
						if st.Field(i).Name() == parts[2] {
							got, found = strings.Join(strings.Fields(st.Tag(i)), " "), true
						}
					}
				}
			}
		}
		goal := "false"
		if found && got == td.Want {
			goal = "true"
		}
		res.Obls = append(res.Obls, &Obl{Name: "tag{" + td.Path + "}", Goal: goal, Kind: "tag", Fn: "struct-tags", Prop: []string{prop}})
		res.Notes = append(res.Notes, "struct tags are compared syntactically; their meaning is govalidator's / yaml's (assumed)")
	}
	return res
}

// containsNamed: does a value of type t hold a value of the named struct type target (by value)?
func containsNamed(t types.Type, target *types.Named, depth int) bool {
	if depth > 6 {
		return false
	}
	if n, ok := t.(*types.Named); ok && n.Obj() == target.Obj() {
		return true
	}
	switch u := t.Underlying().(type) {
	case *types.Struct:
		for i := 0; i < u.NumFields(); i++ {
			if containsNamed(u.Field(i).Type(), target, depth+1) {
				return true
			}
		}
	case *types.Array:
		return containsNamed(u.Elem(), target, depth+1)
	}
	return false
}

// writersObligations: "the only functions that store to field F of struct T are these" (see WritersDecl).  A store is:
// a Store through the field's address; any use of the field's address other than loading from it (the address
// escapes); a whole-struct Store of a value holding a T to anything but a fresh local; a map update with such a value.
// For "T.F[]": a map update or delete on a map of the field's type.  Closures count for their enclosing function.
// Every listed writer must exist and be under a (non-extern) contract.
func (w *World) writersObligations(prop string) *FuncResult {
	res := &FuncResult{Fn: "field-writers", StrLits: map[string]string{}}
	for _, wd := range w.writers {
		hit := false
		for _, p := range wd.Serves {
			if p == prop {
				hit = true
			}
		}
		if !hit {
			continue
		}
		if strings.HasPrefix(wd.Path, "call:") {
			res.Obls = append(res.Obls, w.callersObligation(wd, prop))
			res.Notes = append(res.Notes, "callers obligations are syntactic over go/ssa (static callees and interface method names of call, defer and go instructions in the module's functions; closures count for their enclosing function)")
			continue
		}
		path := strings.TrimSuffix(wd.Path, "[]")
		elems := strings.HasSuffix(wd.Path, "[]")
		parts := strings.Split(path, ".")
		var named *types.Named
		var fieldT types.Type
		fieldIdx := -1
		if len(parts) == 3 {
			for _, pkg := range w.prog.AllPackages() {
				if pkg.Pkg.Name() != parts[0] || !strings.HasPrefix(pkg.Pkg.Path(), w.modPath) {
					continue
				}
				obj := pkg.Pkg.Scope().Lookup(parts[1])
				if obj == nil {
					continue
				}
				n, ok := obj.Type().(*types.Named)
				if !ok {
					continue
				}
				if st, ok := n.Underlying().(*types.Struct); ok {
					for i := 0; i < st.NumFields(); i++ {
						if st.Field(i).Name() == parts[2] {
							named, fieldIdx, fieldT = n, i, st.Field(i).Type()
						}
					}
				}
			}
		}
		var problems []string
		if named == nil {
			problems = append(problems, "no such field in the current tree")
		}
		allowed := map[string]bool{}
		for _, a := range wd.Allowed {
			allowed[a] = true
			fc := w.contracts[a]
			if _, ok := w.fnByKey[a]; !ok {
				problems = append(problems, "listed writer "+a+" does not exist")
			} else if fc == nil || fc.Extern {
				problems = append(problems, "listed writer "+a+" is not under contract")
			}
		}
		found := map[string]string{}
		if named != nil {
			for fn := range ssautil.AllFunctions(w.prog) {
				if fn.Pkg == nil || !strings.HasPrefix(fn.Pkg.Pkg.Path(), w.modPath) || fn.Blocks == nil {
					continue
				}
				root := fn
				for root.Parent() != nil {
					root = root.Parent()
				}
				key := fnKey(root)
				note := func(pos token.Pos, what string) {
					if _, ok := found[key]; !ok {
						found[key] = what + " at " + w.fset.Position(pos).String()
					}
				}
				for _, b := range fn.Blocks {
					for _, in := range b.Instrs {
						switch x := in.(type) {
						case *ssa.FieldAddr:
							if elems || x.Field != fieldIdx {
								continue
							}
							pt, ok := x.X.Type().Underlying().(*types.Pointer)
							if !ok {
								continue
							}
							n, ok := pt.Elem().(*types.Named)
							if !ok || n.Obj() != named.Obj() {
								continue
							}
							for _, r := range *x.Referrers() {
								switch u := r.(type) {
								case *ssa.UnOp:
									if u.Op == token.MUL {
										continue
									}
									note(u.Pos(), "address used")
								case *ssa.DebugRef:
								case *ssa.Store:
									if u.Addr == ssa.Value(x) {
										note(u.Pos(), "store")
									} else {
										note(u.Pos(), "address stored")
									}
								default:
									note(r.Pos(), "address escapes")
								}
							}
						case *ssa.Store:
							if elems {
								continue
							}
							if _, local := x.Addr.(*ssa.Alloc); local {
								continue
							}
							if containsNamed(x.Val.Type(), named, 0) {
								if _, isStruct := x.Val.Type().Underlying().(*types.Struct); isStruct {
									note(x.Pos(), "whole-struct store")
								}
							}
						case *ssa.MapUpdate:
							if elems {
								if types.Identical(x.Map.Type().Underlying(), fieldT.Underlying()) {
									note(x.Pos(), "map update")
								}
							} else if _, isStruct := x.Value.Type().Underlying().(*types.Struct); isStruct && containsNamed(x.Value.Type(), named, 0) {
								note(x.Pos(), "map update with struct value")
							}
						case *ssa.Call:
							if !elems {
								continue
							}
							if bi, ok := x.Call.Value.(*ssa.Builtin); ok && (bi.Name() == "delete" || bi.Name() == "clear") && len(x.Call.Args) >= 1 {
								if types.Identical(x.Call.Args[0].Type().Underlying(), fieldT.Underlying()) {
									note(x.Pos(), "map "+bi.Name())
								}
							}
						}
					}
				}
			}
		}
		var keys []string
		for k := range found {
			keys = append(keys, k)
		}
		sort.Strings(keys)
		for _, k := range keys {
			if !allowed[k] {
				problems = append(problems, "written by "+k+" ("+found[k]+"), which is not a listed writer")
			}
		}
		goal := "true"
		if len(problems) > 0 {
			goal = "false"
		}
		res.Obls = append(res.Obls, &Obl{Name: "writers{" + wd.Path + "}", Goal: goal, Kind: "writers", Fn: "field-writers", Prop: []string{prop}, Detail: strings.Join(problems, "; "),
			Info: fmt.Sprintf("writers found: %s; allowed: %s", strings.Join(keys, ", "), strings.Join(wd.Allowed, ", "))})
		res.Notes = append(res.Notes, "writers obligations are syntactic over go/ssa (stores through field addresses, escaping field addresses, whole-struct stores, map updates by map type); reflection and unsafe are not seen")
	}
	return res
}

// currentLocals: the named local variables of a function (closures included) in declaration order - := definitions, var
// declarations, range variables; not parameters, results or the receiver.
func (w *World) currentLocals(fn *ssa.Function) []LocalEntry {
	syn := fn.Syntax()
	if syn == nil || fn.Pkg == nil {
		return nil
	}
	pkg := w.allPkgs[fn.Pkg.Pkg.Path()]
	if pkg == nil || pkg.TypesInfo == nil {
		return nil
	}
	var body ast.Node
	skip := map[*ast.Ident]bool{}
	switch d := syn.(type) {
	case *ast.FuncDecl:
		body = d.Body
	case *ast.FuncLit:
		body = d.Body
	}
	if body == nil {
		return nil
	}
	// parameters and results of nested function literals are not locals of interest either
	ast.Inspect(body, func(n ast.Node) bool {
		if fl, ok := n.(*ast.FuncLit); ok && fl.Type != nil {
			for _, fl2 := range []*ast.FieldList{fl.Type.Params, fl.Type.Results} {
				if fl2 == nil {
					continue
				}
				for _, f := range fl2.List {
					for _, id := range f.Names {
						skip[id] = true
					}
				}
			}
		}
		return true
	})
	var out []LocalEntry
	qual := func(p *types.Package) string { return p.Name() }
	ast.Inspect(body, func(n ast.Node) bool {
		id, ok := n.(*ast.Ident)
		if !ok || skip[id] || id.Name == "_" {
			return true
		}
		obj := pkg.TypesInfo.Defs[id]
		v, ok := obj.(*types.Var)
		if !ok || v.IsField() {
			return true
		}
		out = append(out, LocalEntry{Name: id.Name, Type: types.TypeString(v.Type(), qual)})
		return true
	})
	return out
}

// localAliases: for a contract that recorded the function's locals, the names a recorded local may go by now.  Entries
// are paired per type in declaration order (the j-th recorded local of a type with the j-th current one), for the types
// that still have as many locals as were recorded; a pair with two different names is a rename.
func (w *World) localAliases(fn *ssa.Function, fc *FuncContract) map[string][]string {
	if fc == nil || len(fc.Locals) == 0 {
		return nil
	}
	cur := w.currentLocals(fn)
	byType := func(es []LocalEntry) map[string][]string {
		m := map[string][]string{}
		for _, e := range es {
			m[e.Type] = append(m[e.Type], e.Name)
		}
		return m
	}
	rec, now := byType(fc.Locals), byType(cur)
	out := map[string][]string{}
	for t, names := range rec {
		cn := now[t]
		if len(cn) != len(names) {
			continue
		}
		for i, old := range names {
			if cn[i] != old {
				dup := false
				for _, x := range out[old] {
					if x == cn[i] {
						dup = true
					}
				}
				if !dup {
					out[old] = append(out[old], cn[i])
				}
			}
		}
	}
	if len(out) == 0 {
		return nil
	}
	return out
}

// callersObligation: "the only module functions that call F are these" - F given as a function key such as
// time.Timer.Reset, time.AfterFunc or pfcp.RxTransaction.startTimer.
func (w *World) callersObligation(wd WritersDecl, prop string) *Obl {
	target := strings.TrimPrefix(wd.Path, "call:")
	allowed := map[string]bool{}
	var problems []string
	for _, a := range wd.Allowed {
		allowed[a] = true
		if _, ok := w.fnByKey[a]; !ok {
			problems = append(problems, "listed caller "+a+" does not exist")
		} else if fc := w.contracts[a]; fc == nil || fc.Extern {
			problems = append(problems, "listed caller "+a+" is not under contract")
		}
	}
	found := map[string]string{}
	for fn := range ssautil.AllFunctions(w.prog) {
		if fn.Pkg == nil || !strings.HasPrefix(fn.Pkg.Pkg.Path(), w.modPath) || fn.Blocks == nil {
			continue
		}
		root := fn
		for root.Parent() != nil {
			root = root.Parent()
		}
		for _, b := range fn.Blocks {
			for _, in := range b.Instrs {
				ci, ok := in.(ssa.CallInstruction)
				if !ok {
					continue
				}
				cc := ci.Common()
				hit := false
				if f := cc.StaticCallee(); f != nil {
					hit = fnKey(f) == target
				} else if cc.IsInvoke() {
					hit = w.typeKeyOf(cc.Value.Type())+"."+cc.Method.Name() == target
				}
				if hit {
					k := fnKey(root)
					if _, dup := found[k]; !dup {
						found[k] = w.fset.Position(in.Pos()).String()
					}
				}
			}
		}
	}
	var keys []string
	for k := range found {
		keys = append(keys, k)
	}
	sort.Strings(keys)
	for _, k := range keys {
		if !allowed[k] {
			problems = append(problems, "called by "+k+" ("+found[k]+"), which is not a listed caller")
		}
	}
	goal := "true"
	if len(problems) > 0 {
		goal = "false"
	}
	return &Obl{Name: "callers{" + target + "}", Goal: goal, Kind: "writers", Fn: "field-writers", Prop: []string{prop}, Detail: strings.Join(problems, "; "),
		Info: fmt.Sprintf("callers found: %s; allowed: %s", strings.Join(keys, ", "), strings.Join(wd.Allowed, ", "))}
}

func (w *World) typeKeyOf(t types.Type) string {
	if p, ok := t.(*types.Pointer); ok {
		t = p.Elem()
	}
	if n, ok := t.(*types.Named); ok && n.Obj().Pkg() != nil {
		return n.Obj().Pkg().Name() + "." + n.Obj().Name()
	}
	return t.String()
}

// callRparens: for every call expression of the function's syntax, the position of its opening parenthesis (which is
// the position go/ssa gives the call instruction) mapped to that of its closing one.
func (w *World) callRparens(fn *ssa.Function) map[token.Pos]token.Pos {
	if w.rparens == nil {
		w.rparens = map[*ssa.Function]map[token.Pos]token.Pos{}
	}
	if m, ok := w.rparens[fn]; ok {
		return m
	}
	m := map[token.Pos]token.Pos{}
	if syn := fn.Syntax(); syn != nil {
		ast.Inspect(syn, func(n ast.Node) bool {
			if ce, ok := n.(*ast.CallExpr); ok {
				m[ce.Lparen] = ce.Rparen
			}
			return true
		})
	}
	w.rparens[fn] = m
	return m
}

// callText: the source text of the call expression whose opening parenthesis is at pos.
func (w *World) callText(fn *ssa.Function, pos token.Pos) string {
	if w.callTexts == nil {
		w.callTexts = map[*ssa.Function]map[token.Pos]string{}
	}
	m, ok := w.callTexts[fn]
	if !ok {
		m = map[token.Pos]string{}
		if w.callTextsExt == nil {
			w.callTextsExt = map[*ssa.Function]map[token.Pos]string{}
		}
		w.callTextsExt[fn] = map[token.Pos]string{}
		if syn := fn.Syntax(); syn != nil {
			var pkg *packages.Package
			if fn.Pkg != nil {
				pkg = w.allPkgs[fn.Pkg.Pkg.Path()]
			}
			ast.Inspect(syn, func(n ast.Node) bool {
				if ce, ok := n.(*ast.CallExpr); ok {
					txt := w.nodeText(ce)
					ext := ""
					// what a helper called in the argument list builds belongs to this call's text as well (an attribute
					// literal moved into a constructor function)
					for _, a := range ce.Args {
						ast.Inspect(a, func(k ast.Node) bool {
							ic, ok := k.(*ast.CallExpr)
							if !ok || pkg == nil || pkg.TypesInfo == nil {
								return true
							}
							var obj types.Object
							switch f := ic.Fun.(type) {
							case *ast.Ident:
								obj = pkg.TypesInfo.Uses[f]
							case *ast.SelectorExpr:
								if sel, ok := pkg.TypesInfo.Selections[f]; ok {
									obj = sel.Obj()
								} else {
									obj = pkg.TypesInfo.Uses[f.Sel]
								}
							}
							if fo, ok := obj.(*types.Func); ok {
								if callee := w.prog.FuncValue(fo); callee != nil && callee.Blocks != nil && w.isRepoPkg(pkgOf(callee)) && callee.Syntax() != nil {
									if fc := w.contracts[fnKey(callee)]; fc == nil || fc.Flags["inline"] {
										ext += " /*" + fnKey(callee) + "*/ " + w.nodeText(callee.Syntax())
									}
								}
							}
							return true
						})
					}
					m[ce.Lparen] = txt
					if ext != "" {
						w.callTextsExt[fn][ce.Lparen] = ext
					}
				}
				return true
			})
		}
		w.callTexts[fn] = m
	}
	return m[pos]
}

// callTextExt: what the helpers called in the argument list of the call at pos build (their source text).
func (w *World) callTextExt(fn *ssa.Function, pos token.Pos) string {
	w.callText(fn, pos)
	return w.callTextsExt[fn][pos]
}
