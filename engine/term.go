package main

import (
	"fmt"
	"math/big"
	"strings"
)

// Terms are SMT-LIB2 strings.  Sorts are SMT-LIB2 sort strings.

const (
	SBool  = "Bool"
	SRef   = "Ref"
	SStr   = "Str"
	SIface = "Iface"
	SInt   = "Int"
)

func bvSort(w int) string { return fmt.Sprintf("(_ BitVec %d)", w) }

func sortWidth(s string) int {
	var w int
	if _, err := fmt.Sscanf(s, "(_ BitVec %d)", &w); err == nil {
		return w
	}
	return 0
}

func arrSort(k, v string) string { return "(Array " + k + " " + v + ")" }

func bvLit(v *big.Int, w int) string {
	m := new(big.Int).Lsh(big.NewInt(1), uint(w))
	x := new(big.Int).Mod(v, m)
	if x.Sign() < 0 {
		x.Add(x, m)
	}
	return fmt.Sprintf("(_ bv%s %d)", x.String(), w)
}

func bvU(v uint64, w int) string { return bvLit(new(big.Int).SetUint64(v), w) }
func bvI(v int64, w int) string  { return bvLit(big.NewInt(v), w) }

var zero64 = "(_ bv0 64)"

func app(op string, args ...string) string {
	if op == "bvadd" && len(args) == 2 {
		if args[0] == zero64 {
			return args[1]
		}
		if args[1] == zero64 {
			return args[0]
		}
	}
	if op == "bvsub" && len(args) == 2 && args[1] == zero64 {
		return args[0]
	}
	return "(" + op + " " + strings.Join(args, " ") + ")"
}

func tAnd(xs ...string) string {
	var out []string
	for _, x := range xs {
		if x == "true" || x == "" {
			continue
		}
		if x == "false" {
			return "false"
		}
		out = append(out, x)
	}
	switch len(out) {
	case 0:
		return "true"
	case 1:
		return out[0]
	}
	return app("and", out...)
}

func tOr(xs ...string) string {
	var out []string
	for _, x := range xs {
		if x == "false" || x == "" {
			continue
		}
		if x == "true" {
			return "true"
		}
		out = append(out, x)
	}
	switch len(out) {
	case 0:
		return "false"
	case 1:
		return out[0]
	}
	return app("or", out...)
}

func tNot(x string) string {
	switch x {
	case "true":
		return "false"
	case "false":
		return "true"
	}
	if strings.HasPrefix(x, "(not ") && balanced(x[5:len(x)-1]) {
		return x[5 : len(x)-1]
	}
	return app("not", x)
}

func balanced(s string) bool {
	d := 0
	for _, c := range s {
		if c == '(' {
			d++
		} else if c == ')' {
			d--
			if d < 0 {
				return false
			}
		}
	}
	return d == 0
}

func tImp(a, b string) string {
	if a == "true" {
		return b
	}
	if a == "false" || b == "true" {
		return "true"
	}
	return app("=>", a, b)
}

func tEq(a, b string) string {
	if a == b {
		return "true"
	}
	return app("=", a, b)
}

func tIte(c, a, b string) string {
	if c == "true" {
		return a
	}
	if c == "false" {
		return b
	}
	if a == b {
		return a
	}
	return app("ite", c, a, b)
}

func tSel(a, i string) string      { return app("select", a, i) }
func tStore(a, i, v string) string { return app("store", a, i, v) }

// sanitize makes a string usable inside an SMT simple symbol.
func sanitize(s string) string {
	var b strings.Builder
	for _, c := range s {
		switch {
		case c >= 'a' && c <= 'z', c >= 'A' && c <= 'Z', c >= '0' && c <= '9', c == '_':
			b.WriteRune(c)
		case c == '.' || c == '/' || c == '|' || c == '#':
			b.WriteByte('_')
		case c == '*':
			b.WriteString("P")
		case c == '[':
			b.WriteString("L")
		case c == ']':
			b.WriteString("J")
		default:
			b.WriteByte('_')
		}
	}
	return b.String()
}

// idxAt is the absolute element index off+j, written with the uninterpreted function `at` (axiomatised as bvadd)
// so that quantifier patterns over slice elements do not contain interpreted arithmetic.
func idxAt(off, j string) string {
	if off == zero64 {
		return j
	}
	return "(at " + off + " " + j + ")"
}
