package main

import (
	"fmt"
	"go/types"
	"sort"
	"strings"
	"sync"

	"golang.org/x/tools/go/ssa"
)

type FuncResult struct {
	Fn        string
	Contract  *FuncContract
	Obls      []*Obl
	Items     []Item
	StrLits   map[string]string
	Notes     []string
	Externs   []string
	EntryAsm  []string // entry assumptions (requires of the verified function)
	Failed    string   // out of reach
	NumInstrs int
	ctx       *Ctx
	itemSyms  [][]string
	declared  map[string]int
	symUsers  map[string][]int
	pruneMu   sync.Mutex
}

func displayName(fn *ssa.Function) string { return fnKey(fn) }

// verifyFunc generates the obligations of one function (under its contract, or safety-only in sweep mode).
func (w *World) verifyFunc(fn *ssa.Function, fc *FuncContract, mode string, extraInline map[string]bool) (res *FuncResult) {
	c := newCtx(w)
	c.mode = mode
	c.inlineExtra = extraInline
	c.fnName = displayName(fn)
	res = &FuncResult{Fn: c.fnName, Contract: fc, ctx: c}
	if fc != nil {
		c.props = fc.Serves
		c.top = fc
	}
	defer func() {
		if r := recover(); r != nil {
			if ee, ok := r.(engineErr); ok {
				res.Failed = ee.msg
				if c.curPos.IsValid() {
					res.Failed += " @ " + w.fset.Position(c.curPos).String()
				}
				res.finish(c)
				return
			}
			panic(r)
		}
	}()
	for _, b := range fn.Blocks {
		res.NumInstrs += len(b.Instrs)
	}
	st := &State{heap: map[string]string{}, cells: map[*Cell]Val{}}
	fr := &Frame{c: c, fn: fn, top: true, contract: fc}
	// parameters
	var args []Val
	vars := map[string]Val{}
	names := paramNames(fn, fc)
	for i, p := range fn.Params {
		T := p.Type()
		if pt, ok := T.Underlying().(*types.Pointer); ok && !isStruct(pt.Elem()) && !isArray(pt.Elem()) {
			// pointer to a non-struct: model as a fresh local cell
			c.cellN++
			cell := &Cell{Name: names[i], T: pt.Elem(), id: c.cellN}
			st.cells[cell] = c.freshVal("in_"+names[i], pt.Elem())
			v := Val{T: T, P: &Ptr{Kind: PCell, Cell: cell, ElemT: pt.Elem()}}
			args = append(args, v)
			vars[names[i]] = v
			continue
		}
		v := c.freshVal("in_"+names[i], T)
		args = append(args, v)
		vars[names[i]] = v
		if mode == "sweep" && i == 0 && fn.Signature.Recv() != nil && len(v.L) == 1 {
			if _, isPtr := T.Underlying().(*types.Pointer); isPtr {
				// safety sweep without a contract: methods are swept for calls on a non-nil receiver
				c.assume("true", tNot(tEq(v.L[0], "null")))
				res.EntryAsm = append(res.EntryAsm, fnKey(fn)+" (sweep) receiver != nil")
			}
		}
		for k, l := range c.leaves(T) {
			c.inputs = append(c.inputs, InputSym{Name: names[i] + l.Path, Term: v.L[k], Sort: l.Sort})
			if l.Sort == SRef {
				// everything passed in exists already
				c.assume("true", tSel(c.allocComp(st), v.L[k]))
			}
		}
	}
	c.assume("true", tSel(c.allocComp(st), "null"))
	var free []Val
	for _, fv := range fn.FreeVars {
		T := fv.Type()
		if pt, ok := T.Underlying().(*types.Pointer); ok && !isStruct(pt.Elem()) && !isArray(pt.Elem()) {
			c.cellN++
			cell := &Cell{Name: fv.Name(), T: pt.Elem(), id: c.cellN}
			st.cells[cell] = c.freshVal("fv_"+fv.Name(), pt.Elem())
			v := Val{T: T, P: &Ptr{Kind: PCell, Cell: cell, ElemT: pt.Elem()}}
			free = append(free, v)
			vars[fv.Name()] = st.cells[cell]
			continue
		}
		v := c.freshVal("fv_"+fv.Name(), T)
		free = append(free, v)
		vars[fv.Name()] = v
	}
	fr.free = free
	fr.envVars = vars
	pkg := pkgOf(fn)
	// global axioms from spec files
	axEnv := &Env{c: c, st: st, vars: map[string]Val{}, pkg: pkg, guard: "true"}
	for ai, ax := range w.axioms {
		// an axiom of package P is only relevant to code that can mention P's types
		relevant := pkg != nil && pkg.Name() == w.axiomPkg[ai]
		if pkg != nil {
			for _, imp := range pkg.Imports() {
				if imp.Name() == w.axiomPkg[ai] {
					relevant = true
				}
			}
		}
		if !relevant {
			continue
		}
		func() {
			defer func() {
				if r := recover(); r != nil {
					if _, ok := r.(engineErr); ok {
						return // axiom not expressible in this package context: skipped
					}
					panic(r)
				}
			}()
			c.assume("true", axEnv.evalBool(ax.E))
		}()
	}
	if fc != nil {
		env := &Env{c: c, st: st, vars: vars, pkg: pkg, guard: "true"}
		for _, rq := range fc.Requires {
			c.assume("true", env.evalBool(rq.E))
			res.EntryAsm = append(res.EntryAsm, fmt.Sprintf("%s requires %s", c.fnName, rq.Text))
		}
	}
	var caseConds []string
	var caseNames []string
	if fc != nil && len(fc.Cases) > 0 {
		env := &Env{c: c, st: st, vars: vars, pkg: pkg, guard: "true"}
		for _, cs := range fc.Cases {
			caseNames = append(caseNames, cs.Label)
			caseConds = append(caseConds, c.defineAlways("case_"+cs.Label, SBool, env.evalBool(cs.E)))
		}
		c.oblige("requires", "cases.exhaustive", "true", tOr(caseConds...))
	}
	entry := st.clone()
	fr.entrySt = entry
	c.entry = entry
	rv, out, Rret := c.execFunc(fr, args, st, "true")
	if fc != nil && Rret != "false" {
		post := map[string]Val{}
		for k, v := range vars {
			post[k] = v
		}
		resT := fn.Signature.Results()
		if len(fc.Results) != resT.Len() {
			c.fail("contract %s declares %d results, function has %d", fc.Key(), len(fc.Results), resT.Len())
		}
		for i, n := range fc.Results {
			post[n] = rv[i]
		}
		c.curPos = fn.Pos()
		// exit set G := e : the function is where the ghost event happens (e.g. "a de-registration was requested" is
		// "DelPeriodReportTimer returned"); applied to every exit state before the postconditions are looked at
		if len(fc.ExitSets) > 0 {
			done := map[*State]bool{}
			apply := func(st *State, vs map[string]Val, guard string) {
				if done[st] {
					return
				}
				done[st] = true
				env := &Env{c: c, st: st, old: entry, vars: vs, pkg: pkg, guard: guard}
				for _, g := range fc.ExitSets {
					gd, ok := c.W.ghosts[g.Name]
					if !ok {
						c.fail("exit set: unknown ghost variable %s", g.Name)
					}
					rt := c.resolveType(pkg, gd.T)
					v := env.eval(g.E)
					if v.Const != nil {
						v = env.coerceConst(v, rt.Go)
					}
					c.compSort["G|"+g.Name] = c.sortOfRT(rt)
					st.heap["G|"+g.Name] = c.define("G_"+g.Name, c.sortOfRT(rt), v.L[0])
				}
			}
			apply(out, post, Rret)
			for k := range fr.rets {
				pv := map[string]Val{}
				for n, v := range vars {
					pv[n] = v
				}
				for i, n := range fc.Results {
					pv[n] = fr.rets[k].vals[i]
				}
				apply(fr.rets[k].st, pv, fr.rets[k].cond)
			}
		}
		penv := &Env{c: c, st: out, old: entry, vars: post, pkg: pkg, guard: Rret}
		for i, ow := range fc.Owns {
			when := "true"
			if ow.When != nil {
				when = penv.evalBool(ow.When)
			}
			x, y := penv.eval(ow.X), penv.eval(ow.Y)
			if len(x.L) != 1 || len(y.L) != 1 {
				c.fail("owns: single references expected")
			}
			c.declFun("ownerOf", SRef, SRef)
			// the object must have been allocated by this function: its owner has not been fixed before
			c.oblige("ensures", fmt.Sprintf("owns%d.fresh", i+1), tAnd(Rret, when), tAnd(tNot(tEq(x.L[0], "null")), tNot(tSel(c.allocComp(entry), x.L[0]))))
			c.assume(tAnd(Rret, when), tEq(app("ownerOf", x.L[0]), y.L[0]))
			c.note("ghost ownership fixed at allocation (uninterpreted owner function): %s", ow.Text)
		}
		// exits: the merged exit state, or (flag perreturn) one exit per return statement, which spares the
		// solver the ite-merged heap of early-return paths
		type exitT struct {
			env  *Env
			cond string
			sfx  string
		}
		exits := []exitT{{penv, Rret, ""}}
		if fc.Flags["perreturn"] && len(fr.rets) > 1 {
			exits = nil
			rets := append([]retInfo(nil), fr.rets...)
			sort.SliceStable(rets, func(a, b int) bool { return rets[a].pos < rets[b].pos })
			for k, r := range rets {
				pv := map[string]Val{}
				for n, v := range vars {
					pv[n] = v
				}
				for i, n := range fc.Results {
					pv[n] = r.vals[i]
				}
				exits = append(exits, exitT{&Env{c: c, st: r.st, old: entry, vars: pv, pkg: pkg, guard: r.cond}, r.cond, fmt.Sprintf("@ret%d", k+1)})
			}
		}
		labelOf := func(i int) string {
			if fc.Ensures[i].Label != "" {
				return fc.Ensures[i].Label
			}
			return fmt.Sprintf("post%d", i+1)
		}
		obligeEnsures := func(i int) {
			label := labelOf(i)
			for _, ex := range exits {
				for k, cj := range c.splitGoal(ex.env, fc.Ensures[i].E) {
					nm := label
					if cj.n > 1 {
						nm = fmt.Sprintf("%s.%d", label, k+1)
					}
					c.oblige("ensures", nm+ex.sfx, ex.cond, cj.t)
				}
			}
		}
		var deferred []int
		for i := range fc.Ensures {
			if len(fc.Uses[labelOf(i)]) > 0 {
				deferred = append(deferred, i)
				continue
			}
			obligeEnsures(i)
		}
		runDeferred := func() {
			// postconditions with a `uses` clause come last: the postconditions they name (each proved on its own
			// from the same exit state) are assumed first
			for _, i := range deferred {
				// `hiding P Q`: these predicates stay atoms while the used postconditions are assumed and this one is proved
				saved := map[string]bool{}
				for _, h := range fc.UsesHide[labelOf(i)] {
					saved[h] = fc.Reveal[h]
					delete(fc.Reveal, h)
				}
				restore := func() {
					for h, v := range saved {
						if v {
							fc.Reveal[h] = true
						}
					}
				}
				for _, u := range fc.Uses[labelOf(i)] {
					found := false
					for j := range fc.Ensures {
						if labelOf(j) == u && len(fc.Uses[u]) == 0 {
							found = true
							for _, ex := range exits {
								c.assume(ex.cond, ex.env.evalBool(fc.Ensures[j].E))
							}
						}
					}
					if !found {
						c.fail("uses: no plain postcondition labelled %q in %s", u, fc.Key())
					}
				}
				obligeEnsures(i)
				restore()
			}
		}
		if fc.HasModifies && !fc.ModAll {
			eenv := &Env{c: c, st: entry, vars: vars, pkg: pkg, guard: "true"}
			c.frameObligations(fc, eenv, entry, out, Rret)
		}
		// vacuity: the function can return under its preconditions
		o := c.oblige("cover", "cover{return}", "true", tNot(Rret))
		o.Expect = "sat"
		runDeferred()
	}
	if len(caseConds) > 0 {
		var split []*Obl
		for _, o := range c.obls {
			if o.Kind == "cover" || strings.HasSuffix(o.Name, "#cases.exhaustive") || o.Goal == "true" {
				split = append(split, o)
				continue
			}
			for i, cc := range caseConds {
				n := *o
				n.Name = o.Name + "@" + caseNames[i]
				n.Goal = tImp(cc, o.Goal)
				split = append(split, &n)
			}
		}
		c.obls = split
	}
	res.finish(c)
	return res
}

func (r *FuncResult) finish(c *Ctx) {
	r.Obls = c.obls
	r.Items = c.items
	r.StrLits = c.strLits
	for n := range c.notes {
		r.Notes = append(r.Notes, n)
	}
	sort.Strings(r.Notes)
	for n := range c.externUsed {
		r.Externs = append(r.Externs, n)
	}
	sort.Strings(r.Externs)
}

func paramNames(fn *ssa.Function, fc *FuncContract) []string {
	var names []string
	for _, p := range fn.Params {
		names = append(names, p.Name())
	}
	if fc == nil {
		return names
	}
	i := 0
	if fn.Signature.Recv() != nil && fc.Recv != "" {
		if len(names) > 0 {
			names[0] = fc.RecvName
		}
		i = 1
	}
	for k, n := range fc.Params {
		if i+k < len(names) {
			names[i+k] = n
		}
	}
	return names
}

// frameObligations: every component whose version changed must agree with the entry version outside the modifies set.
func (c *Ctx) frameObligations(fc *FuncContract, eenv *Env, entry, out *State, Rret string) {
	allowed := map[string][]Loc{}
	for _, m := range fc.Modifies {
		for _, loc := range c.evalLoc(eenv, m) {
			for _, k := range loc.Keys {
				allowed[k.Path] = append(allowed[k.Path], loc)
			}
		}
	}
	alloc0 := c.allocComp(entry)
	for _, key := range sortedKeys(out.heap) {
		if key == "alloc" {
			continue
		}
		sortC := c.compSort[key]
		v0 := c.comp(entry, key, sortC)
		v1 := out.heap[key]
		if v0 == v1 {
			continue
		}
		goal := c.frameGoal(key, alloc0, allowed[key], v1, v0)
		c.oblige("frame", "frame{"+key+"}", Rret, goal)
	}
}
