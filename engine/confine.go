package main

// Thread-confinement obligations (C17).
//
//	//@ confined serves C17 root pfcp.PfcpServer.main init pfcp.NewPfcpServer = pfcp.PfcpServer.lnode pfcp.Sess.* pfcp.TxTransaction.*-id-server
//
// states an ownership contract: the listed fields are accessed (read, written, or their address taken) only by
// code running on the goroutine whose entry function is `root`, or - before that goroutine exists - by the listed
// `init` functions.  It is checked over go/ssa and a class-hierarchy call graph of the whole program (dependencies
// included, so callbacks invoked by library goroutines are followed):
//
//   * goroutine roots are the targets of every `go` statement in the program and every function value handed to
//     time.AfterFunc; the program entry (main.main and package initialisers) is the start-up root;
//   * the code of a root is everything reachable from it without crossing a `go` statement;
//   * no root other than `root` may reach a function that accesses a confined field; the start-up root may reach
//     such a function only if it is one of the `init` functions (or only reachable through one).
//
// When it holds, every access to the confined state is made by one goroutine (or happens before that goroutine is
// started), which is a sufficient condition for the absence of data races on that state under every schedule.
// No SMT is involved: the obligation is decided by the analysis, and fails with the offending access, the root that
// reaches it and a call path.

import (
	"fmt"
	"go/token"
	"go/types"
	"sort"
	"strings"

	"golang.org/x/tools/go/ssa"
	"golang.org/x/tools/go/ssa/ssautil"
)

type ConfinedDecl struct {
	Serves []string
	Root   string
	Init   []string
	Fields []string // pkg.Type.field | pkg.Type.* | pkg.Type.*-f1-f2
	Line   int
}

// parseConfined: "serves C17 root F init G H = fields..."
func parseConfined(rest string) (ConfinedDecl, error) {
	var cd ConfinedDecl
	i := strings.Index(rest, "=")
	if i < 0 {
		return cd, fmt.Errorf("confined: expected 'confined serves Cxx root F [init G...] = fields'")
	}
	mode := ""
	for _, f := range strings.Fields(rest[:i]) {
		switch f {
		case "serves", "root", "init":
			mode = f
			continue
		}
		switch mode {
		case "serves":
			cd.Serves = append(cd.Serves, f)
		case "root":
			cd.Root = f
		case "init":
			cd.Init = append(cd.Init, f)
		default:
			return cd, fmt.Errorf("confined: unexpected %q", f)
		}
	}
	cd.Fields = strings.Fields(rest[i+1:])
	if cd.Root == "" || len(cd.Fields) == 0 || len(cd.Serves) == 0 {
		return cd, fmt.Errorf("confined: root, serves and at least one field are required")
	}
	return cd, nil
}

type fieldKey struct {
	obj *types.TypeName
	idx int
}

func (w *World) lookupNamedStruct(pkgName, typeName string) (*types.Named, *types.Struct) {
	for _, pkg := range w.prog.AllPackages() {
		if pkg.Pkg.Name() != pkgName || !strings.HasPrefix(pkg.Pkg.Path(), w.modPath) {
			continue
		}
		obj := pkg.Pkg.Scope().Lookup(typeName)
		if obj == nil {
			continue
		}
		if n, ok := obj.Type().(*types.Named); ok {
			if st, ok := n.Underlying().(*types.Struct); ok {
				return n, st
			}
		}
	}
	return nil, nil
}

type goRoot struct {
	fn   *ssa.Function
	what string // how it becomes a goroutine
	lax  bool   // called by a dependency (or the program entry): may run before the owner exists, init functions allowed
}

// confineWorld: a call graph of the module's own functions.  Static calls are exact; interface calls go to every module
// type implementing the interface; calls of function values go to every module function of that signature whose
// address is taken.  Dependencies are not traversed: whatever the module hands to a dependency (function values,
// closures, module values converted to an interface) is a root of its own, since the dependency may call it on any
// goroutine.
type confineWorld struct {
	w         *World
	out       map[*ssa.Function][]*ssa.Function
	roots     []goRoot
	addrTaken []*ssa.Function
	modTypes  []types.Type
}

func (w *World) isModuleFn(f *ssa.Function) bool {
	if f == nil || f.Blocks == nil {
		return false
	}
	if f.Parent() != nil {
		return w.isModuleFn(f.Parent())
	}
	if f.Pkg != nil {
		return strings.HasPrefix(f.Pkg.Pkg.Path(), w.modPath)
	}
	if o := f.Object(); o != nil && o.Pkg() != nil {
		return strings.HasPrefix(o.Pkg().Path(), w.modPath)
	}
	return false
}

// method names a dependency may discover on a value it receives as an empty interface
var wellKnownMethods = map[string]bool{"String": true, "Error": true, "GoString": true, "Format": true, "MarshalJSON": true, "UnmarshalJSON": true,
	"MarshalYAML": true, "UnmarshalYAML": true, "MarshalText": true, "UnmarshalText": true, "Write": true, "Read": true, "Close": true, "Unwrap": true}

func (cw *confineWorld) methodsOf(T types.Type, want func(name string) bool) []*ssa.Function {
	var out []*ssa.Function
	mset := cw.w.prog.MethodSets.MethodSet(T)
	for i := 0; i < mset.Len(); i++ {
		sel := mset.At(i)
		if !want(sel.Obj().Name()) {
			continue
		}
		if f := cw.w.prog.MethodValue(sel); f != nil && cw.w.isModuleFn(f) {
			out = append(out, f)
		}
	}
	return out
}

// targets of a call instruction inside the module
func (cw *confineWorld) targets(cc *ssa.CallCommon) []*ssa.Function {
	if cc.IsInvoke() {
		iface, _ := cc.Value.Type().Underlying().(*types.Interface)
		var out []*ssa.Function
		for _, T := range cw.modTypes {
			if iface != nil && !types.Implements(T, iface) {
				continue
			}
			out = append(out, cw.methodsOf(T, func(n string) bool { return n == cc.Method.Name() })...)
		}
		return out
	}
	if f := cc.StaticCallee(); f != nil {
		if cw.w.isModuleFn(f) {
			return []*ssa.Function{f}
		}
		return nil
	}
	if _, isBuiltin := cc.Value.(*ssa.Builtin); isBuiltin {
		return nil
	}
	var out []*ssa.Function
	for _, g := range cw.addrTaken {
		if types.Identical(g.Signature, cc.Value.Type().Underlying()) {
			out = append(out, g)
		}
	}
	return out
}

func (w *World) confineWorld() *confineWorld {
	if w.cw != nil {
		return w.cw
	}
	cw := &confineWorld{w: w, out: map[*ssa.Function][]*ssa.Function{}}
	var fns []*ssa.Function
	for fn := range ssautil.AllFunctions(w.prog) {
		if w.isModuleFn(fn) {
			fns = append(fns, fn)
		}
	}
	sort.Slice(fns, func(i, j int) bool { return fns[i].String() < fns[j].String() })
	for _, pkg := range w.prog.AllPackages() {
		if !strings.HasPrefix(pkg.Pkg.Path(), w.modPath) {
			continue
		}
		for _, m := range pkg.Members {
			if t, ok := m.(*ssa.Type); ok {
				cw.modTypes = append(cw.modTypes, t.Type(), types.NewPointer(t.Type()))
			}
		}
	}
	taken := map[*ssa.Function]bool{}
	take := func(v ssa.Value) {
		switch x := v.(type) {
		case *ssa.Function:
			if w.isModuleFn(x) && !taken[x] {
				taken[x] = true
				cw.addrTaken = append(cw.addrTaken, x)
			}
		case *ssa.MakeClosure:
			if f, ok := x.Fn.(*ssa.Function); ok && w.isModuleFn(f) && !taken[f] {
				taken[f] = true
				cw.addrTaken = append(cw.addrTaken, f)
			}
		}
	}
	for _, fn := range fns {
		for _, b := range fn.Blocks {
			for _, in := range b.Instrs {
				if ci, ok := in.(ssa.CallInstruction); ok {
					for _, a := range ci.Common().Args {
						take(a)
					}
					continue
				}
				if _, dbg := in.(*ssa.DebugRef); dbg {
					continue
				}
				if mc, ok := in.(*ssa.MakeClosure); ok {
					// a closure that is only ever called on the spot (defer func(){...}(), go func(){...}()) is no value
					escapes := false
					for _, r := range *mc.Referrers() {
						if _, dbg := r.(*ssa.DebugRef); dbg {
							continue
						}
						if ci, ok := r.(ssa.CallInstruction); ok && ci.Common().Value == ssa.Value(mc) {
							direct := true
							for _, a := range ci.Common().Args {
								if a == ssa.Value(mc) {
									direct = false
								}
							}
							if direct {
								continue
							}
						}
						escapes = true
					}
					if escapes {
						take(mc)
					}
					continue
				}
				for _, op := range in.Operands(nil) {
					if *op != nil {
						if _, isFn := (*op).(*ssa.Function); isFn {
							take(*op)
						}
					}
				}
			}
		}
	}
	seen := map[*ssa.Function]int{}
	addRoot := func(fn *ssa.Function, what string, lax bool) {
		if fn == nil || !w.isModuleFn(fn) {
			return
		}
		if i, ok := seen[fn]; ok {
			if !lax && cw.roots[i].lax {
				cw.roots[i].lax, cw.roots[i].what = false, what
			}
			return
		}
		seen[fn] = len(cw.roots)
		cw.roots = append(cw.roots, goRoot{fn, what, lax})
	}
	for _, fn := range fns {
		for _, b := range fn.Blocks {
			for _, in := range b.Instrs {
				ci, ok := in.(ssa.CallInstruction)
				if !ok {
					continue
				}
				cc := ci.Common()
				pos := w.fset.Position(in.Pos()).String()
				if _, isGo := in.(*ssa.Go); isGo {
					for _, t := range cw.targets(cc) {
						addRoot(t, "go statement at "+pos, false)
					}
				} else {
					cw.out[fn] = append(cw.out[fn], cw.targets(cc)...)
				}
				// what is handed to a dependency may be called by it on any goroutine
				callee := cc.StaticCallee()
				toDependency := (callee != nil && !w.isModuleFn(callee)) || (cc.IsInvoke() && len(cw.targets(cc)) == 0)
				if !toDependency {
					continue
				}
				timer := callee != nil && callee.Pkg != nil && callee.Pkg.Pkg.Path() == "time" && callee.Name() == "AfterFunc"
				// library functions that call what they are given before they return, on the caller's goroutine
				synchronous := false
				if callee != nil && !timer {
					cp := ""
					if callee.Pkg != nil {
						cp = callee.Pkg.Pkg.Path()
					} else if o := callee.Object(); o != nil && o.Pkg() != nil {
						cp = o.Pkg().Path()
					}
					for _, sp := range []string{"sort", "slices", "strings", "bytes", "maps", "sync", "unicode", "container/heap", "fmt", "log", "errors", "strconv",
						"github.com/pkg/errors", "github.com/sirupsen/logrus"} {
						if cp == sp {
							synchronous = true
						}
					}
				}
				name := "a dependency"
				if callee != nil {
					name = callee.String()
				}
				for ai, a := range cc.Args {
					if f := fnValue(a); f != nil {
						if synchronous && w.isModuleFn(f) {
							cw.out[fn] = append(cw.out[fn], f)
						} else {
							addRoot(f, "function handed to "+name+" at "+pos, !timer)
						}
						continue
					}
					switch x := a.(type) {
					case *ssa.MakeInterface:
						var want func(string) bool
						var pt types.Type
						if callee != nil && callee.Signature != nil {
							ps := callee.Signature.Params()
							k := ai
							if callee.Signature.Recv() != nil {
								k = ai - 1
							}
							if k >= 0 && k < ps.Len() {
								pt = ps.At(k).Type()
							} else if ps.Len() > 0 && callee.Signature.Variadic() {
								if sl, ok := ps.At(ps.Len() - 1).Type().(*types.Slice); ok {
									pt = sl.Elem()
								}
							}
						}
						if it, ok := x.Type().Underlying().(*types.Interface); ok && pt == nil {
							pt = it
						}
						want = func(n string) bool { return wellKnownMethods[n] }
						if pt != nil {
							if it, ok := pt.Underlying().(*types.Interface); ok && it.NumMethods() > 0 {
								names := map[string]bool{}
								for i := 0; i < it.NumMethods(); i++ {
									names[it.Method(i).Name()] = true
								}
								want = func(n string) bool { return names[n] }
							}
						}
						for _, m := range cw.methodsOf(x.X.Type(), want) {
							if synchronous {
								cw.out[fn] = append(cw.out[fn], m)
							} else {
								addRoot(m, "method of a value handed to "+name+" at "+pos, true)
							}
						}
					}
				}
			}
		}
	}
	// a function value stored into memory (a struct field, a variable, a map) may be called later by whoever reads it,
	// on whatever goroutine: a root of its own as well (calls through such values inside the module are also resolved
	// by signature, see targets)
	for _, fn := range fns {
		for _, b := range fn.Blocks {
			for _, in := range b.Instrs {
				var v ssa.Value
				switch x := in.(type) {
				case *ssa.Store:
					v = x.Val
				case *ssa.MapUpdate:
					v = x.Value
				case *ssa.Send:
					v = x.X
				}
				if v == nil {
					continue
				}
				pos := w.fset.Position(in.Pos()).String()
				if f := fnValue(v); f != nil {
					addRoot(f, "function value stored at "+pos, true)
				}
			}
		}
	}
	for _, pkg := range w.prog.AllPackages() {
		if !strings.HasPrefix(pkg.Pkg.Path(), w.modPath) {
			continue
		}
		if pkg.Pkg.Name() == "main" {
			addRoot(pkg.Func("main"), "program entry", true)
		}
		addRoot(pkg.Func("init"), "package initialiser", true)
	}
	w.cw = cw
	return cw
}

// reach: module functions reachable from `from` without crossing a go statement; parent pointers for path reporting.
// Functions in `stop` are not expanded (the init functions of lax roots).
func (cw *confineWorld) reach(from []*ssa.Function, stop map[*ssa.Function]bool) map[*ssa.Function]*ssa.Function {
	parent := map[*ssa.Function]*ssa.Function{}
	var stack []*ssa.Function
	for _, f := range from {
		if _, ok := parent[f]; !ok {
			parent[f] = nil
			stack = append(stack, f)
		}
	}
	for len(stack) > 0 {
		f := stack[len(stack)-1]
		stack = stack[:len(stack)-1]
		if stop[f] {
			continue
		}
		for _, g := range cw.out[f] {
			if _, ok := parent[g]; !ok {
				parent[g] = f
				stack = append(stack, g)
			}
		}
	}
	return parent
}

// fnValue: the function a value denotes when it is a function or closure, possibly converted to a named function type
// or wrapped into an interface.
func fnValue(v ssa.Value) *ssa.Function {
	for i := 0; i < 6; i++ {
		switch x := v.(type) {
		case *ssa.Function:
			return x
		case *ssa.MakeClosure:
			f, _ := x.Fn.(*ssa.Function)
			return f
		case *ssa.ChangeType:
			v = x.X
		case *ssa.MakeInterface:
			v = x.X
		case *ssa.ChangeInterface:
			v = x.X
		default:
			return nil
		}
	}
	return nil
}

func (cw *confineWorld) isRoot(f *ssa.Function) bool {
	for _, r := range cw.roots {
		if r.fn == f {
			return true
		}
	}
	return false
}

func pathTo(parent map[*ssa.Function]*ssa.Function, f *ssa.Function) string {
	var names []string
	for g := f; g != nil; g = parent[g] {
		names = append(names, fnKey(g))
		if len(names) > 12 {
			names = append(names, "...")
			break
		}
	}
	for i, j := 0, len(names)-1; i < j; i, j = i+1, j-1 {
		names[i], names[j] = names[j], names[i]
	}
	return strings.Join(names, " -> ")
}

func (w *World) confinedObligations(prop string) *FuncResult {
	res := &FuncResult{Fn: "goroutine-confinement", StrLits: map[string]string{}}
	for _, cd := range w.confined {
		hit := false
		for _, p := range cd.Serves {
			if p == prop {
				hit = true
			}
		}
		if !hit {
			continue
		}
		var problems []string
		// the confined field set
		fields := map[fieldKey]string{}
		funcAcc := map[*ssa.Function]string{}
		for _, fs := range cd.Fields {
			if strings.HasPrefix(fs, "func:") {
				// a function that only the owning goroutine may run
				f := w.fnByKey[strings.TrimPrefix(fs, "func:")]
				if f == nil {
					problems = append(problems, "no function "+strings.TrimPrefix(fs, "func:")+" in the current tree")
				} else {
					funcAcc[f] = fs
				}
				continue
			}
			parts := strings.SplitN(fs, ".", 3)
			if len(parts) != 3 {
				problems = append(problems, "malformed field "+fs)
				continue
			}
			n, st := w.lookupNamedStruct(parts[0], parts[1])
			if n == nil {
				problems = append(problems, "no struct "+parts[0]+"."+parts[1]+" in the current tree")
				continue
			}
			if strings.HasPrefix(parts[2], "*") {
				except := map[string]bool{}
				for _, e := range strings.Split(parts[2], "-")[1:] {
					except[e] = true
					found := false
					for i := 0; i < st.NumFields(); i++ {
						if st.Field(i).Name() == e {
							found = true
						}
					}
					if !found {
						problems = append(problems, "no field "+e+" in "+parts[0]+"."+parts[1])
					}
				}
				for i := 0; i < st.NumFields(); i++ {
					if !except[st.Field(i).Name()] {
						fields[fieldKey{n.Obj(), i}] = parts[0] + "." + parts[1] + "." + st.Field(i).Name()
					}
				}
				continue
			}
			found := false
			for i := 0; i < st.NumFields(); i++ {
				if st.Field(i).Name() == parts[2] {
					fields[fieldKey{n.Obj(), i}] = fs
					found = true
				}
			}
			if !found {
				problems = append(problems, "no field "+fs+" in the current tree")
			}
		}
		cw := w.confineWorld()
		owner := w.fnByKey[cd.Root]
		if owner == nil {
			problems = append(problems, "root "+cd.Root+" does not exist")
		} else {
			started := false
			for _, r := range cw.roots {
				if r.fn == owner && !r.lax {
					started = true
				}
			}
			if !started {
				problems = append(problems, "root "+cd.Root+" is not started by a go statement anywhere")
			}
		}
		initFns := map[*ssa.Function]bool{}
		for _, k := range cd.Init {
			f := w.fnByKey[k]
			if f == nil {
				problems = append(problems, "init function "+k+" does not exist")
				continue
			}
			initFns[f] = true
		}
		// accessors: module functions with an access to a confined field
		type access struct {
			field string
			pos   token.Pos
		}
		accessors := map[*ssa.Function]access{}
		naccess := 0
		for fn := range ssautil.AllFunctions(w.prog) {
			if fn.Pkg == nil || !strings.HasPrefix(fn.Pkg.Pkg.Path(), w.modPath) {
				continue
			}
			for _, b := range fn.Blocks {
				for _, in := range b.Instrs {
					var T types.Type
					idx := -1
					switch x := in.(type) {
					case *ssa.FieldAddr:
						if pt, ok := x.X.Type().Underlying().(*types.Pointer); ok {
							T, idx = pt.Elem(), x.Field
						}
					case *ssa.Field:
						T, idx = x.X.Type(), x.Field
					}
					if idx < 0 {
						continue
					}
					n, ok := T.(*types.Named)
					if !ok {
						continue
					}
					if name, ok := fields[fieldKey{n.Obj(), idx}]; ok {
						naccess++
						if _, dup := accessors[fn]; !dup {
							accessors[fn] = access{name, in.Pos()}
						}
					}
				}
			}
		}
		for f, name := range funcAcc {
			naccess++
			if _, dup := accessors[f]; !dup {
				accessors[f] = access{name, f.Pos()}
			}
		}
		if naccess == 0 && len(fields) > 0 {
			problems = append(problems, "no access to any confined field was found (vacuous)")
		}
		report := func(rootDesc string, parent map[*ssa.Function]*ssa.Function, allowed map[*ssa.Function]bool) {
			var bad []*ssa.Function
			for f := range parent {
				if _, acc := accessors[f]; acc && !allowed[f] {
					bad = append(bad, f)
				}
			}
			sort.Slice(bad, func(i, j int) bool { return fnKey(bad[i]) < fnKey(bad[j]) })
			for i, f := range bad {
				if i >= 4 {
					problems = append(problems, fmt.Sprintf("... and %d more from %s", len(bad)-i, rootDesc))
					break
				}
				a := accessors[f]
				problems = append(problems, fmt.Sprintf("%s is accessed by %s (%s) on %s, path %s", a.field, fnKey(f), w.fset.Position(a.pos), rootDesc, pathTo(parent, f)))
			}
		}
		if owner != nil {
			for _, r := range cw.roots {
				if r.fn == owner {
					continue
				}
				if r.lax {
					report(fnKey(r.fn)+" ["+r.what+"]", cw.reach([]*ssa.Function{r.fn}, initFns), initFns)
				} else {
					report("goroutine "+fnKey(r.fn)+" ["+r.what+"]", cw.reach([]*ssa.Function{r.fn}, nil), nil)
				}
			}
		}
		goal := "true"
		if len(problems) > 0 {
			goal = "false"
		}
		var rootNames []string
		for _, r := range cw.roots {
			if r.fn != owner {
				rootNames = append(rootNames, fnKey(r.fn))
			}
		}
		info := fmt.Sprintf("%d confined fields (and functions), %d accesses in %d functions of the module; other roots examined: %s", len(fields)+len(funcAcc), naccess, len(accessors), strings.Join(rootNames, ", "))
		res.Obls = append(res.Obls, &Obl{Name: "confined{" + cd.Root + "}", Goal: goal, Kind: "confined", Fn: "goroutine-confinement", Prop: []string{prop}, Detail: strings.Join(problems, "; "), Info: info})
		res.Notes = append(res.Notes, fmt.Sprintf("confinement of %d fields to %s: %d roots (go statements, timer callbacks, functions and methods handed to dependencies, program entry), call graph of the module's own functions (interface calls: every implementing module type; function values: every address-taken function of that signature); sufficient condition for race freedom of the confined state only; accesses through reflection/unsafe and goroutines started by the runtime are not seen", len(fields), cd.Root, len(cw.roots)))
	}
	return res
}
