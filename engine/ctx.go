package main

import (
	"fmt"
	"go/token"
	"go/types"
	"os"
	"regexp"
	"sort"
	"strings"

	"golang.org/x/tools/go/ssa"
)

// ---------------------------------------------------------------------------
// Values

type PtrKind int

const (
	PField  PtrKind = iota // field cell of a heap struct object
	PElem                  // element of a slice/array backing store (non-struct element)
	PCell                  // local cell
	PGlobal                // package-level variable
)

// Ptr is a Go-side pointer to a non-struct location.
type Ptr struct {
	Kind   PtrKind
	S      types.Type // PField: struct type
	Field  int        // PField
	Obj    string     // PField: object ref; PElem: backing ref
	Idx    string     // PElem: absolute index (BV64)
	ElemT  types.Type // pointee type
	Cell   *Cell
	Glob   *ssa.Global
	Cast32 bool   // unsafe view of 4 bytes as little-endian uint32
	Bound  string // PElem: exclusive upper bound of the originating slice (for Cast32 safety)
	Root   string // PElem: type key of the backing store's element type
	Path   string // PElem: field path inside a struct element
}

type Cell struct {
	Name string
	T    types.Type
	id   int
}

// Val is a symbolic Go value: its Go type and the SMT terms of its leaves.
type Val struct {
	T   types.Type
	L   []string
	P   *Ptr
	Tup []Val
	ST  *SType // spec-only type (sets, ghost maps, tuples); nil for Go values
	// untyped constant from the spec language
	Const *constVal
	// Go-side function values
	Fn   *ssa.Function
	Bind []Val
	// spec evaluation: heap state in which this reference is to be dereferenced (set by old(...))
	St *State
}

type Leaf struct {
	Path string
	Sort string
	T    types.Type
}

// ---------------------------------------------------------------------------
// Items (the SMT script prefix) and obligations

type Item struct {
	Kind string // "decl", "def", "assert", "declfun", "raw"
	Name string
	Sort string
	Body string
	Args string // declfun: argument sorts
}

type Obl struct {
	Name   string
	Prop   []string // properties served
	Prefix int      // number of items visible
	Goal   string   // guard => cond, already combined
	Kind   string   // "safety", "ensures", "requires", "invariant", "frame", "assert", "cover", "canary"
	Pos    token.Position
	Fn     string
	Inputs []InputSym // symbols to report in counterexamples
	Expect string     // "unsat" (default) or "sat" (covers/canaries)
	Detail string     // for syntactic obligations: why the goal is false
	Info   string     // for syntactic obligations: what was examined
}

type InputSym struct {
	Name string // human name e.g. "lSeid" or "e.QoSFlowID"
	Term string
	Sort string
}

type State struct {
	heap  map[string]string
	cells map[*Cell]Val
	tmpl  map[string]string // template state: every component is a placeholder; records key -> sort
}

func (s *State) clone() *State {
	n := &State{heap: make(map[string]string, len(s.heap)), cells: make(map[*Cell]Val, len(s.cells))}
	for k, v := range s.heap {
		n.heap[k] = v
	}
	for k, v := range s.cells {
		n.cells[k] = v
	}
	return n
}

type Ctx struct {
	identities int             // goal conjuncts discharged by identity with an assumed fact
	known      map[string]bool // alpha-normalised quantified facts assumed unconditionally
	W          *World
	items      []Item
	obls       []*Obl
	nsym       int
	compSort   map[string]string // component key -> sort of component
	initial    map[string]string // component key -> initial symbol
	declared   map[string]bool
	typeIDs    map[string]int
	strLits    map[string]string
	oblNames   map[string]int
	cellN      int
	fnName     string // top-level function under verification
	props      []string
	notes      map[string]bool // assumptions / defaulted externs encountered
	curPos     token.Pos
	entry      *State
	inputs     []InputSym
	failed     string // non-empty: out of reach reason
	mode       string // "contract" or "sweep"
	axiomsOn   bool
	// modular bookkeeping
	externUsed  map[string]bool
	rec         map[string]string // when non-nil: component keys (with sorts) read during spec evaluation
	opTmpl      map[string]*opTemplate
	opReveal    map[string]*opTemplate // revealed bodies per (predicate, reveal set)
	tmplHide    bool                   // evaluating a signature template: nested opaque predicates stay atoms
	inlineExtra map[string]bool
	top         *FuncContract
	havocAlloc  string
	subTags     int
	subFuns     []string
}

type engineErr struct{ msg string }

func (c *Ctx) fail(format string, a ...interface{}) {
	panic(engineErr{fmt.Sprintf(format, a...)})
}

func newCtx(w *World) *Ctx {
	c := &Ctx{W: w, compSort: map[string]string{}, initial: map[string]string{}, declared: map[string]bool{},
		typeIDs: map[string]int{}, strLits: map[string]string{}, oblNames: map[string]int{}, notes: map[string]bool{},
		externUsed: map[string]bool{}}
	return c
}

func (c *Ctx) note(format string, a ...interface{}) { c.notes[fmt.Sprintf(format, a...)] = true }

func (c *Ctx) fresh(prefix, sort string) string {
	c.nsym++
	name := fmt.Sprintf("%s!%d", sanitize(prefix), c.nsym)
	c.items = append(c.items, Item{Kind: "decl", Name: name, Sort: sort})
	return name
}

// define introduces a named abbreviation for body (or returns body itself when it is small).
func (c *Ctx) define(prefix, sort, body string) string {
	if len(body) < 48 {
		return body
	}
	c.nsym++
	name := fmt.Sprintf("%s!%d", sanitize(prefix), c.nsym)
	c.items = append(c.items, Item{Kind: "def", Name: name, Sort: sort, Body: body})
	return name
}

func (c *Ctx) defineAlways(prefix, sort, body string) string {
	c.nsym++
	name := fmt.Sprintf("%s!%d", sanitize(prefix), c.nsym)
	c.items = append(c.items, Item{Kind: "def", Name: name, Sort: sort, Body: body})
	return name
}

func (c *Ctx) assume(guard, fact string) {
	f := tImp(guard, fact)
	if f == "true" {
		return
	}
	c.items = append(c.items, Item{Kind: "assert", Body: f})
	if guard == "true" {
		c.recordKnown(fact, 0)
	}
}

var boundVarRe = regexp.MustCompile(`[A-Za-z_][A-Za-z_0-9]*!q[0-9]+`)

// alphaNorm renames bound variables (name!qN) by order of first occurrence.
func alphaNorm(t string) string {
	if !strings.Contains(t, "!q") {
		return t
	}
	m := map[string]string{}
	return boundVarRe.ReplaceAllStringFunc(t, func(v string) string {
		if r, ok := m[v]; ok {
			return r
		}
		r := fmt.Sprintf("?%d", len(m))
		m[v] = r
		return r
	})
}

// recordKnown remembers the quantified top-level conjuncts of an unconditionally assumed fact, so that a goal
// conjunct that is the very same formula (same component versions) is discharged by identity instead of
// asking a solver to re-instantiate it.
func (c *Ctx) recordKnown(fact string, depth int) {
	if c.known == nil {
		c.known = map[string]bool{}
	}
	if strings.HasPrefix(fact, "(and ") && depth < 64 {
		for _, a := range sexprArgs(fact) {
			c.recordKnown(a, depth+1)
		}
		return
	}
	if strings.HasPrefix(fact, "(forall ") {
		c.known[alphaNorm(fact)] = true
	}
}

// sexprArgs returns the arguments of a parenthesised application "(op a b c)".
func sexprArgs(t string) []string {
	var out []string
	i := strings.IndexByte(t, ' ')
	if i < 0 {
		return nil
	}
	d, start := 0, -1
	for j := i; j < len(t)-1; j++ {
		ch := t[j]
		switch {
		case ch == '(':
			if d == 0 && start < 0 {
				start = j
			}
			d++
		case ch == ')':
			d--
			if d == 0 && start >= 0 {
				out = append(out, t[start:j+1])
				start = -1
			}
		case ch == ' ':
			if d == 0 && start >= 0 {
				out = append(out, t[start:j])
				start = -1
			}
		default:
			if d == 0 && start < 0 {
				start = j
			}
		}
	}
	if start >= 0 {
		out = append(out, t[start:len(t)-1])
	}
	return out
}

func (c *Ctx) declFun(name, args, ret string) {
	if c.declared[name] {
		return
	}
	c.declared[name] = true
	c.items = append(c.items, Item{Kind: "declfun", Name: name, Args: args, Sort: ret})
}

func (c *Ctx) raw(key, text string) {
	if c.declared[key] {
		return
	}
	c.declared[key] = true
	c.items = append(c.items, Item{Kind: "raw", Body: text})
}

func (c *Ctx) oblige(kind, name, guard, cond string) *Obl {
	goal := tImp(guard, cond)
	if goal == "true" {
		// trivially discharged; still count it
	}
	full := c.fnName + "#" + name
	c.oblNames[full]++
	if n := c.oblNames[full]; n > 1 {
		full = fmt.Sprintf("%s/%d", full, n)
	}
	o := &Obl{Name: full, Prefix: len(c.items), Goal: goal, Kind: kind, Fn: c.fnName, Prop: c.props, Inputs: c.inputs}
	if c.curPos.IsValid() {
		o.Pos = c.W.fset.Position(c.curPos)
	}
	c.obls = append(c.obls, o)
	if (kind == "safety" || kind == "requires" || kind == "assert") && goal != "true" && !strings.Contains(goal, "(forall ") && !strings.Contains(goal, "(exists ") {
		// assert-then-assume: the continuation may rely on what was just required
		c.items = append(c.items, Item{Kind: "assert", Body: goal})
	}
	return o
}

// ---------------------------------------------------------------------------
// Types, sorts, leaves

// typeKey: canonical, alias-free name of a type (component keys are built from it).
func (c *Ctx) typeKey(T types.Type) string {
	switch t := T.(type) {
	case *types.Alias:
		return c.typeKey(types.Unalias(t))
	case *types.Pointer:
		return "*" + c.typeKey(t.Elem())
	case *types.Slice:
		return "[]" + c.typeKey(t.Elem())
	case *types.Array:
		return fmt.Sprintf("[%d]%s", t.Len(), c.typeKey(t.Elem()))
	case *types.Map:
		return "map[" + c.typeKey(t.Key()) + "]" + c.typeKey(t.Elem())
	case *types.Chan:
		return "chan " + c.typeKey(t.Elem())
	case *types.Interface:
		if t.NumMethods() == 0 && t.NumEmbeddeds() == 0 {
			return "interface{}"
		}
	}
	return types.TypeString(T, func(p *types.Package) string { return p.Name() })
}

func isStruct(T types.Type) bool {
	_, ok := T.Underlying().(*types.Struct)
	return ok
}

func isArray(T types.Type) bool {
	_, ok := T.Underlying().(*types.Array)
	return ok
}

func basicSort(b *types.Basic) (string, bool) {
	switch b.Kind() {
	case types.Bool, types.UntypedBool:
		return SBool, true
	case types.Int8, types.Uint8:
		return bvSort(8), true
	case types.Int16, types.Uint16:
		return bvSort(16), true
	case types.Int32, types.Uint32, types.UntypedRune:
		return bvSort(32), true
	case types.Int, types.Uint, types.Int64, types.Uint64, types.Uintptr, types.UntypedInt:
		return bvSort(64), true
	case types.String, types.UntypedString:
		return SStr, true
	case types.Float32, types.Float64, types.UntypedFloat:
		return "F64", true
	case types.UnsafePointer:
		return SRef, true
	case types.UntypedNil:
		return SRef, true
	}
	return "", false
}

func isSigned(T types.Type) bool {
	if b, ok := T.Underlying().(*types.Basic); ok {
		return b.Info()&types.IsInteger != 0 && b.Info()&types.IsUnsigned == 0
	}
	return false
}

func isInteger(T types.Type) bool {
	if b, ok := T.Underlying().(*types.Basic); ok {
		return b.Info()&types.IsInteger != 0
	}
	return false
}

func (c *Ctx) leaves(T types.Type) []Leaf {
	switch u := T.Underlying().(type) {
	case *types.Basic:
		s, ok := basicSort(u)
		if !ok {
			c.fail("unsupported basic type %s", T)
		}
		if s == "F64" {
			c.raw("sort:F64", "(declare-sort F64 0)")
		}
		return []Leaf{{"", s, T}}
	case *types.Pointer, *types.Map, *types.Chan, *types.Signature:
		return []Leaf{{"", SRef, T}}
	case *types.Slice:
		return []Leaf{{"#base", SRef, T}, {"#off", bvSort(64), types.Typ[types.Int]}, {"#len", bvSort(64), types.Typ[types.Int]}}
	case *types.Interface:
		return []Leaf{{"", SIface, T}}
	case *types.Struct:
		var out []Leaf
		for i := 0; i < u.NumFields(); i++ {
			f := u.Field(i)
			for _, l := range c.leaves(f.Type()) {
				out = append(out, Leaf{"." + f.Name() + l.Path, l.Sort, l.T})
			}
		}
		return out
	case *types.Array:
		// array values are modelled by reference to a backing object (value semantics are not modelled)
		return []Leaf{{"", SRef, T}}
	case *types.Tuple:
		var out []Leaf
		for i := 0; i < u.Len(); i++ {
			for _, l := range c.leaves(u.At(i).Type()) {
				out = append(out, Leaf{fmt.Sprintf("#%d%s", i, l.Path), l.Sort, l.T})
			}
		}
		return out
	}
	c.fail("unsupported type %s", T)
	return nil
}

func (c *Ctx) zeroLeaf(l Leaf) string {
	switch l.Sort {
	case SBool:
		return "false"
	case SRef:
		return "null"
	case SStr:
		return c.strLit("")
	case SIface:
		return "inil"
	case "F64":
		c.declFun("f64zero", "", "F64")
		return "f64zero"
	}
	if w := sortWidth(l.Sort); w > 0 {
		return bvU(0, w)
	}
	c.fail("zero of sort %s", l.Sort)
	return ""
}

func (c *Ctx) zeroVal(T types.Type) Val {
	ls := c.leaves(T)
	v := Val{T: T, L: make([]string, len(ls))}
	for i, l := range ls {
		v.L[i] = c.zeroLeaf(l)
	}
	return v
}

func (c *Ctx) freshVal(prefix string, T types.Type) Val {
	ls := c.leaves(T)
	v := Val{T: T, L: make([]string, len(ls))}
	for i, l := range ls {
		v.L[i] = c.fresh(prefix+l.Path, l.Sort)
	}
	c.assumeValid("true", v)
	return v
}

// assumeValid adds the type invariants of a value (slice length ranges).
func (c *Ctx) assumeValid(guard string, v Val) {
	if v.T == nil {
		return
	}
	ls := c.leaves(v.T)
	for i, l := range ls {
		if strings.HasSuffix(l.Path, "#len") || strings.HasSuffix(l.Path, "#off") {
			c.assume(guard, app("bvult", v.L[i], lenBound))
		}
		if strings.HasSuffix(l.Path, "#base") && i+2 < len(ls) {
			// a nil slice has no elements
			c.assume(guard, tImp(tEq(v.L[i], "null"), tAnd(tEq(v.L[i+1], bvU(0, 64)), tEq(v.L[i+2], bvU(0, 64)))))
		}
	}
}

// nilSliceFacts: slices read from the heap obey "nil base => empty" (every slice value the program builds does).
func (c *Ctx) nilSliceFacts(v Val) {
	if v.T == nil || v.P != nil {
		return
	}
	if _, ok := v.T.Underlying().(*types.Slice); ok && len(v.L) == 3 {
		key := "nsf:" + v.L[0] + v.L[2]
		if strings.Contains(key, "!q") {
			return // under a binder: the instance would mention the bound variable
		}
		if c.declared[key] {
			return
		}
		c.declared[key] = true
		c.items = append(c.items, Item{Kind: "assert", Body: tImp(tEq(v.L[0], "null"), tAnd(tEq(v.L[1], bvU(0, 64)), tEq(v.L[2], bvU(0, 64))))})
	}
}

var lenBound = bvU(1<<47, 64)

func (c *Ctx) strLit(s string) string {
	if n, ok := c.strLits[s]; ok {
		return n
	}
	if s == "" {
		c.strLits[s] = "strlit!empty"
		return "strlit!empty"
	}
	name := fmt.Sprintf("strlit!%d", len(c.strLits)+1)
	c.strLits[s] = name
	// declared at emission time together with distinctness
	return name
}

func (c *Ctx) typeID(T types.Type) string {
	k := c.typeKey(T)
	if _, ok := c.typeIDs[k]; !ok {
		c.typeIDs[k] = len(c.typeIDs) + 1
	}
	return fmt.Sprintf("%d", c.typeIDs[k])
}

// fieldOffset returns the leaf offset and count of field i inside struct type S.
func (c *Ctx) fieldLeafRange(S types.Type, i int) (int, int) {
	st := S.Underlying().(*types.Struct)
	off := 0
	for k := 0; k < i; k++ {
		off += len(c.leaves(st.Field(k).Type()))
	}
	return off, len(c.leaves(st.Field(i).Type()))
}

// ---------------------------------------------------------------------------
// Heap components

func (c *Ctx) comp(st *State, key, sort string) string {
	if st.tmpl != nil {
		st.tmpl[key] = sort
		c.compSort[key] = sort
		return "@C:" + key + "@"
	}
	if c.rec != nil {
		c.rec[key] = sort
	}
	if v, ok := st.heap[key]; ok {
		return v
	}
	if v, ok := c.initial[key]; ok {
		return v
	}
	c.compSort[key] = sort
	name := c.freshComp(key, sort)
	c.initial[key] = name
	if a0, ok := c.initial["alloc"]; ok {
		c.closedAxiom(key, sort, name, a0)
	}
	return name
}

// closedAxiom: in the entry heap, references stored in allocated objects point to allocated objects.
// (the same holds in every reachable state w.r.t. the allocation set of that state; closedAxiom is therefore also
// applied to component versions introduced by havoc, with the allocation set current at that point)
func (c *Ctx) closedAxiom(key, sort, name, a0 string) {
	if key == "alloc" {
		return
	}
	if os.Getenv("GOVC_NOCLOSED") != "" && a0 != c.initial["alloc"] {
		return
	}
	switch {
	case sort == arrSort(SRef, SRef):
		c.items = append(c.items, Item{Kind: "assert", Body: fmt.Sprintf("(forall ((r Ref)) (! (=> (select %s r) (select %s (select %s r))) :pattern ((select %s r))))", a0, a0, name, name)})
	case sort == arrSort(SRef, arrSort(bvSort(64), SRef)) && strings.HasPrefix(key, "E|"):
		c.items = append(c.items, Item{Kind: "assert", Body: fmt.Sprintf("(forall ((r Ref) (i (_ BitVec 64))) (! (=> (select %s r) (select %s (select (select %s r) i))) :pattern ((select (select %s r) i))))", a0, a0, name, name)})
	case strings.HasPrefix(key, "MV|") && strings.HasSuffix(sort, " Ref))"):
		ks := strings.TrimSuffix(strings.TrimPrefix(sort, "(Array Ref (Array "), " Ref))")
		c.items = append(c.items, Item{Kind: "assert", Body: fmt.Sprintf("(forall ((r Ref) (k %s)) (! (=> (select %s r) (select %s (select (select %s r) k))) :pattern ((select (select %s r) k))))", ks, a0, a0, name, name)})
	}
}

// freshComp declares a fresh version of a component together with its well-formedness axioms.
func (c *Ctx) freshComp(key, sort string) string {
	name := c.fresh(key, sort)
	c.compAxioms(key, sort, name)
	return name
}

func (c *Ctx) compAxioms(key, sort, name string) {
	if strings.HasSuffix(key, "#len") || strings.HasSuffix(key, "#off") {
		switch {
		case strings.HasPrefix(key, "F|"):
			c.items = append(c.items, Item{Kind: "assert", Body: fmt.Sprintf("(forall ((r Ref)) (! (bvult (select %s r) %s) :pattern ((select %s r))))", name, lenBound, name)})
		case strings.HasPrefix(key, "E|"):
			c.items = append(c.items, Item{Kind: "assert", Body: fmt.Sprintf("(forall ((r Ref) (i (_ BitVec 64))) (! (bvult (select (select %s r) i) %s) :pattern ((select (select %s r) i))))", name, lenBound, name)})
		case strings.HasPrefix(key, "GL|"):
			c.items = append(c.items, Item{Kind: "assert", Body: app("bvult", name, lenBound)})
		}
	}
	if strings.HasPrefix(key, "ML|") {
		c.items = append(c.items, Item{Kind: "assert", Body: fmt.Sprintf("(forall ((r Ref)) (! (bvult (select %s r) %s) :pattern ((select %s r))))", name, lenBound, name)})
	}
}

func (c *Ctx) setComp(st *State, key, sort, term string) {
	c.compSort[key] = sort
	st.heap[key] = c.define(key, sort, term)
}

// structKey returns the component prefix of a struct type.
func (c *Ctx) structKey(S types.Type) string { return c.typeKey(S) }

// loadAt loads a value of type T stored under component prefix `pfx` at ref index `ref`
// (components are Array Ref sort).
func (c *Ctx) loadFieldVal(st *State, S types.Type, field int, ref string) Val {
	stt := S.Underlying().(*types.Struct)
	f := stt.Field(field)
	FT := f.Type()
	if isStruct(FT) {
		return c.loadStruct(st, FT, c.subRef(S, field, ref))
	}
	ls := c.leaves(FT)
	v := Val{T: FT, L: make([]string, len(ls))}
	for i, l := range ls {
		key := "F|" + c.structKey(S) + "." + f.Name() + l.Path
		v.L[i] = tSel(c.comp(st, key, arrSort(SRef, l.Sort)), ref)
	}
	c.nilSliceFacts(v)
	return v
}

func (c *Ctx) storeFieldVal(st *State, S types.Type, field int, ref string, v Val) {
	stt := S.Underlying().(*types.Struct)
	f := stt.Field(field)
	FT := f.Type()
	if isStruct(FT) {
		c.storeStruct(st, FT, c.subRef(S, field, ref), v)
		return
	}
	ls := c.leaves(FT)
	if len(v.L) != len(ls) {
		c.fail("storeField %s.%s: leaf mismatch %d vs %d", S, f.Name(), len(v.L), len(ls))
	}
	for i, l := range ls {
		key := "F|" + c.structKey(S) + "." + f.Name() + l.Path
		sort := arrSort(SRef, l.Sort)
		c.setComp(st, key, sort, tStore(c.comp(st, key, sort), ref, v.L[i]))
	}
}

func (c *Ctx) loadStruct(st *State, S types.Type, ref string) Val {
	stt := S.Underlying().(*types.Struct)
	v := Val{T: S}
	for i := 0; i < stt.NumFields(); i++ {
		fv := c.loadFieldVal(st, S, i, ref)
		v.L = append(v.L, fv.L...)
	}
	return v
}

func (c *Ctx) storeStruct(st *State, S types.Type, ref string, v Val) {
	stt := S.Underlying().(*types.Struct)
	off := 0
	for i := 0; i < stt.NumFields(); i++ {
		n := len(c.leaves(stt.Field(i).Type()))
		c.storeFieldVal(st, S, i, ref, Val{T: stt.Field(i).Type(), L: v.L[off : off+n]})
		off += n
	}
}

// subRef is the address of an embedded struct field.
func (c *Ctx) subRef(S types.Type, field int, ref string) string {
	stt := S.Underlying().(*types.Struct)
	name := "sub_" + sanitize(c.structKey(S)) + "_" + stt.Field(field).Name()
	if !c.declared[name] {
		c.declFun(name, SRef, SRef)
		inv := name + "_inv"
		c.declFun(inv, SRef, SRef)
		c.items = append(c.items, Item{Kind: "assert", Body: fmt.Sprintf("(forall ((r Ref)) (! (and (= (%s (%s r)) r) (not (= (%s r) null)) (not (= (%s r) r))) :pattern ((%s r))))", inv, name, name, name, name)})
		// embedded structs of different fields (and stand-alone objects, tag 0) are different objects
		c.declFun("subtag", SRef, SInt)
		c.subTags++
		c.items = append(c.items, Item{Kind: "assert", Body: fmt.Sprintf("(forall ((r Ref)) (! (= (subtag (%s r)) %d) :pattern ((%s r))))", name, c.subTags, name)})
		if a0, ok := c.initial["alloc"]; ok {
			// an embedded struct exists exactly when its enclosing object does
			c.items = append(c.items, Item{Kind: "assert", Body: fmt.Sprintf("(forall ((r Ref)) (! (= (select %s (%s r)) (select %s r)) :pattern ((%s r))))", a0, name, a0, name)})
		}
	}
	return app(name, ref)
}

func (c *Ctx) loadElem(st *State, E types.Type, base, idx string) Val {
	ls := c.leaves(E)
	v := Val{T: E, L: make([]string, len(ls))}
	for i, l := range ls {
		key := "E|" + c.typeKey(E) + l.Path
		v.L[i] = tSel(tSel(c.comp(st, key, arrSort(SRef, arrSort(bvSort(64), l.Sort))), base), idx)
	}
	c.nilSliceFacts(v)
	return v
}

func (c *Ctx) storeElem(st *State, E types.Type, base, idx string, v Val) {
	ls := c.leaves(E)
	for i, l := range ls {
		key := "E|" + c.typeKey(E) + l.Path
		sort := arrSort(SRef, arrSort(bvSort(64), l.Sort))
		cur := c.comp(st, key, sort)
		c.setComp(st, key, sort, tStore(cur, base, tStore(tSel(cur, base), idx, v.L[i])))
	}
}

// elemComps lists the component keys (and element leaf) that hold elements of type E.
func (c *Ctx) elemRowKeys(E types.Type) []Leaf {
	var out []Leaf
	for _, l := range c.leaves(E) {
		out = append(out, Leaf{"E|" + c.typeKey(E) + l.Path, l.Sort, l.T})
	}
	return out
}

// load through a Go-side pointer
func (c *Ctx) loadPtr(st *State, p *Ptr) Val {
	switch p.Kind {
	case PField:
		return c.loadFieldVal(st, p.S, p.Field, p.Obj)
	case PElem:
		if p.Cast32 {
			b := func(k uint64) string {
				return c.loadElem(st, p.ElemT, p.Obj, app("bvadd", p.Idx, bvU(k, 64))).L[0]
			}
			return Val{T: types.Typ[types.Uint32], L: []string{app("concat", b(3), b(2), b(1), b(0))}}
		}
		return c.loadLoc(st, p)
	case PCell:
		v, ok := st.cells[p.Cell]
		if !ok {
			c.fail("read of uninitialised cell %s", p.Cell.Name)
		}
		return v
	case PGlobal:
		T := p.ElemT
		ls := c.leaves(T)
		v := Val{T: T, L: make([]string, len(ls))}
		for i, l := range ls {
			key := "GL|" + p.Glob.Pkg.Pkg.Name() + "." + p.Glob.Name() + l.Path
			v.L[i] = c.comp(st, key, l.Sort)
		}
		return v
	}
	c.fail("loadPtr kind")
	return Val{}
}

func (c *Ctx) storePtr(st *State, p *Ptr, v Val) {
	switch p.Kind {
	case PField:
		c.storeFieldVal(st, p.S, p.Field, p.Obj, v)
	case PElem:
		if p.Cast32 {
			for k := 0; k < 4; k++ {
				byteV := app(fmt.Sprintf("(_ extract %d %d)", 8*k+7, 8*k), v.L[0])
				c.storeElem(st, p.ElemT, p.Obj, app("bvadd", p.Idx, bvU(uint64(k), 64)), Val{T: p.ElemT, L: []string{byteV}})
			}
			return
		}
		c.storeLoc(st, p, v)
	case PCell:
		st.cells[p.Cell] = v
	case PGlobal:
		ls := c.leaves(p.ElemT)
		for i, l := range ls {
			key := "GL|" + p.Glob.Pkg.Pkg.Name() + "." + p.Glob.Name() + l.Path
			c.compSort[key] = l.Sort
			st.heap[key] = v.L[i]
		}
	}
}

// ---------------------------------------------------------------------------
// Maps

type mapInfo struct {
	key   string // type key
	K, V  types.Type
	ksort string
	vls   []Leaf
}

func (c *Ctx) mapInfo(M types.Type) mapInfo {
	m := M.Underlying().(*types.Map)
	kl := c.leaves(m.Key())
	if len(kl) != 1 {
		c.fail("map key type %s not supported", m.Key())
	}
	mi := mapInfo{key: c.typeKey(M), K: m.Key(), V: m.Elem(), ksort: kl[0].Sort}
	if isStruct(m.Elem()) && m.Elem().Underlying().(*types.Struct).NumFields() > 0 {
		c.fail("map with struct values %s not supported", M)
	}
	mi.vls = c.leaves(m.Elem())
	return mi
}

func (c *Ctx) mapDom(st *State, mi mapInfo) string {
	return c.comp(st, "MD|"+mi.key, arrSort(SRef, arrSort(mi.ksort, SBool)))
}
func (c *Ctx) mapLenComp(st *State, mi mapInfo) string {
	return c.comp(st, "ML|"+mi.key, arrSort(SRef, bvSort(64)))
}
func (c *Ctx) mapValComp(st *State, mi mapInfo, i int) (string, string, string) {
	key := "MV|" + mi.key + mi.vls[i].Path
	sort := arrSort(SRef, arrSort(mi.ksort, mi.vls[i].Sort))
	return c.comp(st, key, sort), key, sort
}

func (c *Ctx) mapHas(st *State, mi mapInfo, m, k string) string {
	return tAnd(tNot(tEq(m, "null")), tSel(tSel(c.mapDom(st, mi), m), k))
}

func (c *Ctx) mapGet(st *State, mi mapInfo, m, k string) Val {
	v := Val{T: mi.V, L: make([]string, len(mi.vls))}
	has := c.mapHas(st, mi, m, k)
	for i := range mi.vls {
		cur, _, _ := c.mapValComp(st, mi, i)
		v.L[i] = tIte(has, tSel(tSel(cur, m), k), c.zeroLeaf(mi.vls[i]))
	}
	return v
}

func (c *Ctx) mapSet(st *State, mi mapInfo, m, k string, v Val) {
	dom := c.mapDom(st, mi)
	had := tSel(tSel(dom, m), k)
	lc := c.mapLenComp(st, mi)
	newLen := tIte(had, tSel(lc, m), app("bvadd", tSel(lc, m), bvU(1, 64)))
	c.setComp(st, "ML|"+mi.key, arrSort(SRef, bvSort(64)), tStore(lc, m, newLen))
	c.setComp(st, "MD|"+mi.key, arrSort(SRef, arrSort(mi.ksort, SBool)), tStore(dom, m, tStore(tSel(dom, m), k, "true")))
	for i := range mi.vls {
		cur, key, sort := c.mapValComp(st, mi, i)
		c.setComp(st, key, sort, tStore(cur, m, tStore(tSel(cur, m), k, v.L[i])))
	}
}

func (c *Ctx) mapDelete(st *State, mi mapInfo, m, k string) {
	// delete on a nil map is a no-op; the stores below then touch the row of `null`, which no lookup reads
	dom := c.mapDom(st, mi)
	had := tSel(tSel(dom, m), k)
	lc := c.mapLenComp(st, mi)
	newLen := tIte(had, app("bvsub", tSel(lc, m), bvU(1, 64)), tSel(lc, m))
	c.setComp(st, "ML|"+mi.key, arrSort(SRef, bvSort(64)), tStore(lc, m, newLen))
	c.setComp(st, "MD|"+mi.key, arrSort(SRef, arrSort(mi.ksort, SBool)), tStore(dom, m, tStore(tSel(dom, m), k, "false")))
}

func (c *Ctx) mapMake(st *State, mi mapInfo, m string) {
	dom := c.mapDom(st, mi)
	lc := c.mapLenComp(st, mi)
	c.setComp(st, "ML|"+mi.key, arrSort(SRef, bvSort(64)), tStore(lc, m, bvU(0, 64)))
	c.setComp(st, "MD|"+mi.key, arrSort(SRef, arrSort(mi.ksort, SBool)), tStore(dom, m, fmt.Sprintf("((as const %s) false)", arrSort(mi.ksort, SBool))))
}

// mapLen: len(m); the link between length and emptiness is asserted without quantifier alternation:
//
//	len == 0 ==> no key present ;  len != 0 ==> some (witness) key present.
func (c *Ctx) mapLen(st *State, guard string, mi mapInfo, m string) string {
	lc := c.mapLenComp(st, mi)
	dom := c.mapDom(st, mi)
	l := tIte(tEq(m, "null"), bvU(0, 64), tSel(lc, m))
	row := tSel(dom, m)
	isZero := tEq(tSel(lc, m), bvU(0, 64))
	if strings.Contains(m, "!q") || strings.Contains(guard, "!q") || strings.Contains(m, "@P") {
		return l // under a binder (or inside a predicate template): the witness facts cannot be stated at top level
	}
	c.assume(guard, tImp(isZero, fmt.Sprintf("(forall ((k %s)) (! (not (select %s k)) :pattern ((select %s k))))", mi.ksort, row, row)))
	wit := c.fresh("witness", mi.ksort)
	c.assume(guard, tImp(tNot(isZero), tSel(row, wit)))
	return l
}

// ---------------------------------------------------------------------------
// Allocation

func (c *Ctx) allocComp(st *State) string { return c.comp(st, "alloc", arrSort(SRef, SBool)) }

func (c *Ctx) newRef(st *State, guard, prefix string) string {
	r := c.fresh(prefix, SRef)
	a := c.allocComp(st)
	c.declFun("subtag", SRef, SInt)
	c.assume("true", tAnd(tNot(tEq(r, "null")), tNot(tSel(a, r)), tEq(app("subtag", r), "0")))
	st.heap["alloc"] = c.define("alloc", arrSort(SRef, SBool), tStore(a, r, "true"))
	return r
}

func sortedKeys(m map[string]string) []string {
	var ks []string
	for k := range m {
		ks = append(ks, k)
	}
	sort.Strings(ks)
	return ks
}
