package main

import (
	"fmt"
	"go/types"

	"golang.org/x/tools/go/ssa"
)

// Channel model: a FIFO buffer per channel object with sequential semantics.
//   CH|head, CH|tail : Array Ref BV64    (length = tail - head)
//   CH|cap           : Array Ref BV64
//   CH|closed        : Array Ref Bool
//   CHB|<elem><leaf> : Array Ref (Array BV64 sort)
// Blocking receives yield unconstrained values (another goroutine may have sent);
// blocking sends are recorded in the buffer without a capacity check (blocking itself is not modelled).

var chanComps = map[string]string{
	"CH|head":   arrSort(SRef, bvSort(64)),
	"CH|tail":   arrSort(SRef, bvSort(64)),
	"CH|cap":    arrSort(SRef, bvSort(64)),
	"CH|closed": arrSort(SRef, SBool),
}

func (c *Ctx) chGet(st *State, key string) string { return c.comp(st, key, chanComps[key]) }

func (c *Ctx) chanLen(st *State, ch string) string {
	return app("bvsub", tSel(c.chGet(st, "CH|tail"), ch), tSel(c.chGet(st, "CH|head"), ch))
}
func (c *Ctx) chanCap(st *State, ch string) string    { return tSel(c.chGet(st, "CH|cap"), ch) }
func (c *Ctx) chanClosed(st *State, ch string) string { return tSel(c.chGet(st, "CH|closed"), ch) }

func (c *Ctx) chanMake(st *State, ch, size string) {
	c.setComp(st, "CH|head", chanComps["CH|head"], tStore(c.chGet(st, "CH|head"), ch, bvU(0, 64)))
	c.setComp(st, "CH|tail", chanComps["CH|tail"], tStore(c.chGet(st, "CH|tail"), ch, bvU(0, 64)))
	c.setComp(st, "CH|cap", chanComps["CH|cap"], tStore(c.chGet(st, "CH|cap"), ch, size))
	c.setComp(st, "CH|closed", chanComps["CH|closed"], tStore(c.chGet(st, "CH|closed"), ch, "false"))
}

func (c *Ctx) chanClose(st *State, ch string) {
	c.setComp(st, "CH|closed", chanComps["CH|closed"], tStore(c.chGet(st, "CH|closed"), ch, "true"))
}

func (c *Ctx) chanBufKeys(el types.Type) []Leaf {
	var out []Leaf
	for _, l := range c.leaves(el) {
		out = append(out, Leaf{"CHB|" + c.typeKey(el) + l.Path, l.Sort, l.T})
	}
	return out
}

// chanPush appends v under condition cond (state is updated with ite).
func (c *Ctx) chanPush(st *State, el types.Type, ch string, v Val, cond string) {
	tail := tSel(c.chGet(st, "CH|tail"), ch)
	for i, k := range c.chanBufKeys(el) {
		sort := arrSort(SRef, arrSort(bvSort(64), k.Sort))
		cur := c.comp(st, k.Path, sort)
		upd := tStore(cur, ch, tStore(tSel(cur, ch), tail, v.L[i]))
		c.setComp(st, k.Path, sort, tIte(cond, upd, cur))
	}
	tc := c.chGet(st, "CH|tail")
	c.setComp(st, "CH|tail", chanComps["CH|tail"], tIte(cond, tStore(tc, ch, app("bvadd", tail, bvU(1, 64))), tc))
}

// chanPop removes the head element under condition cond and returns it.
func (c *Ctx) chanPop(st *State, el types.Type, ch string, cond string) Val {
	head := tSel(c.chGet(st, "CH|head"), ch)
	v := Val{T: el}
	for _, k := range c.chanBufKeys(el) {
		sort := arrSort(SRef, arrSort(bvSort(64), k.Sort))
		cur := c.comp(st, k.Path, sort)
		v.L = append(v.L, c.define("pop", k.Sort, tSel(tSel(cur, ch), head)))
	}
	hc := c.chGet(st, "CH|head")
	c.setComp(st, "CH|head", chanComps["CH|head"], tIte(cond, tStore(hc, ch, app("bvadd", head, bvU(1, 64))), hc))
	return v
}

func (fr *Frame) send(t *ssa.Send, st *State, R string) {
	c := fr.c
	ch := fr.val(t.Chan).L[0]
	el := t.Chan.Type().Underlying().(*types.Chan).Elem()
	fr.safety("sendclosed", fr.srcName(t.Chan), R, tNot(c.chanClosed(st, ch)))
	c.note("blocking channel send recorded without capacity check (blocking/liveness not modelled)")
	v := fr.val(t.X)
	if v.P != nil {
		c.fail("Go-side pointer sent on channel")
	}
	c.chanPush(st, el, ch, v, "true")
}

func (fr *Frame) recv(t *ssa.UnOp, st *State, R string) {
	c := fr.c
	el := t.X.Type().Underlying().(*types.Chan).Elem()
	c.note("blocking channel receive yields an unconstrained value")
	v := c.freshVal("recv", el)
	c.assumeAllocated(st, v)
	if t.CommaOk {
		fr.vals[t] = Val{T: t.Type(), Tup: []Val{v, boolVal(c.fresh("recvok", SBool))}}
	} else {
		fr.vals[t] = v
	}
}

func (fr *Frame) selectInstr(t *ssa.Select, st *State, R string) {
	c := fr.c
	n := len(t.States)
	var tup []Val
	if t.Blocking {
		idx := c.fresh("selidx", bvSort(64))
		c.assume(R, app("bvult", idx, bvU(uint64(n), 64)))
		tup = append(tup, Val{T: types.Typ[types.Int], L: []string{idx}}, boolVal(c.fresh("recvok", SBool)))
		for _, s := range t.States {
			if s.Dir == types.RecvOnly {
				el := s.Chan.Type().Underlying().(*types.Chan).Elem()
				rv := c.freshVal("recv", el)
				c.assumeAllocated(st, rv)
				tup = append(tup, rv)
			} else {
				c.note("send case in blocking select recorded without capacity check")
			}
		}
		c.note("blocking select: the chosen case and received values are unconstrained")
		fr.vals[t] = Val{T: t.Type(), Tup: tup}
		return
	}
	// non-blocking: cases are tried in order (Go picks pseudo-randomly among ready cases; with one case this is exact)
	if n != 1 {
		c.fail("non-blocking select with %d cases", n)
	}
	s := t.States[0]
	ch := fr.val(s.Chan).L[0]
	el := s.Chan.Type().Underlying().(*types.Chan).Elem()
	nonnil := tNot(tEq(ch, "null"))
	ln := c.define("chlen", bvSort(64), c.chanLen(st, ch))
	closed := c.chanClosed(st, ch)
	if s.Dir == types.SendOnly {
		ready := c.define("ready", SBool, tAnd(nonnil, tOr(closed, app("bvult", ln, c.chanCap(st, ch)))))
		fr.safety("sendclosed", fr.srcName(s.Chan), R, tNot(tAnd(nonnil, closed)))
		v := fr.val(s.Send)
		c.chanPush(st, el, ch, v, ready)
		idx := tIte(ready, bvU(0, 64), bvI(-1, 64))
		fr.vals[t] = Val{T: t.Type(), Tup: []Val{{T: types.Typ[types.Int], L: []string{idx}}, boolVal("false")}}
		return
	}
	has := c.define("has", SBool, tAnd(nonnil, tNot(tEq(ln, bvU(0, 64)))))
	ready := c.define("ready", SBool, tOr(has, tAnd(nonnil, closed)))
	v := c.chanPop(st, el, ch, has)
	z := c.zeroVal(el)
	for i := range v.L {
		v.L[i] = tIte(has, v.L[i], z.L[i])
	}
	idx := tIte(ready, bvU(0, 64), bvI(-1, 64))
	fr.vals[t] = Val{T: t.Type(), Tup: []Val{{T: types.Typ[types.Int], L: []string{idx}}, boolVal(has), v}}
	_ = fmt.Sprint
}

// assumeAllocated: references inside a value obtained from outside (channel receive) denote existing objects.
func (c *Ctx) assumeAllocated(st *State, v Val) {
	if v.T == nil {
		return
	}
	for k, l := range c.leaves(v.T) {
		if l.Sort == SRef {
			c.assume("true", tSel(c.allocComp(st), v.L[k]))
		}
	}
}
