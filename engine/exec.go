package main

import (
	"fmt"
	"go/ast"
	"go/constant"
	"go/token"
	"go/types"
	"math/big"
	"os"
	"sort"
	"strings"

	"golang.org/x/tools/go/ssa"
)

const maxInlineDepth = 6

type edge struct {
	cond string
	st   *State
	from *ssa.BasicBlock
}

type loopInfo struct {
	header    *ssa.BasicBlock
	blocks    map[*ssa.BasicBlock]bool
	ann       *LoopAnn
	desc      string
	entry     *State // state at loop entry (after merge, before havoc)
	hstate    *State // havocked state at the header
	phis      map[*ssa.Phi]Val
	pre       map[*ssa.Phi]Val
	ws        *WS
	allowed   map[string][]Loc
	headAlloc string
	preSt     *State // state in which the loop is entered (before() in invariants)
	headR     string // guard under which an iteration starts (after the invariants were assumed)
}

type Frame struct {
	c            *Ctx
	fn           *ssa.Function
	vals         map[ssa.Value]Val
	depth        int
	top          bool
	contract     *FuncContract
	prefix       string
	free         []Val
	params       []Val
	loops        map[*ssa.BasicBlock]*loopInfo
	rcells       map[*ssa.Range]*Cell
	stack        []*ssa.Function
	callOrd      map[string]int
	entrySt      *State
	envVars      map[string]Val
	refs         map[string][]refRec
	callOrdinals map[*CallAnn]map[string]int
	root         *Frame                     // the frame of the function under contract (nil for that frame itself)
	aliases      map[string][]string        // recorded local name -> names it may go by now (renames)
	argSrc       map[string]string          // parameter name -> the caller's source text of the argument (inlined frames)
	blockR       map[*ssa.BasicBlock]string // guard of each block executed so far
	entryR       string                     // guard under which the function is entered
	aliasBound   map[string]string          // recorded name -> current name it was bound to by the last bindLocals
	inner        *Frame                     // (top frame) the expanded helper frame whose call site is being annotated
	domBound     map[string]bool            // names bound by the last bindLocals from a dominating definition
	posPath      string                     // chain of call positions from the function under contract to this (inlined) frame
	expLoops     map[string]string          // (top frame) loop descriptors numbered over the expanded text
	aliasOK      bool
	path         string // chain of call sites from the function under contract to this (inlined) frame
	curBlock     *ssa.BasicBlock
	// results
	rets []retInfo
}

type refRec struct {
	blk *ssa.BasicBlock
	v   ssa.Value
}

type retInfo struct {
	cond string
	st   *State
	vals []Val
	pos  token.Pos
}

func (fr *Frame) oblName(s string) string {
	if fr.prefix == "" {
		return s
	}
	return fr.prefix + s
}

func (fr *Frame) exprText(pos token.Pos, fallback string) string {
	return fallback
}

// execFunc runs fn symbolically from state st under reach condition R.
func (c *Ctx) execFunc(fr *Frame, args []Val, st *State, R string) ([]Val, *State, string) {
	fn := fr.fn
	if fn.Blocks == nil {
		c.fail("function %s has no body", fn)
	}
	if fr.vals == nil {
		fr.vals = map[ssa.Value]Val{}
	}
	fr.rcells = map[*ssa.Range]*Cell{}
	fr.callOrd = map[string]int{}
	fr.params = args
	fr.entryR = R
	for i, p := range fn.Params {
		fr.vals[p] = args[i]
	}
	for i, fv := range fn.FreeVars {
		if i < len(fr.free) {
			fr.vals[fv] = fr.free[i]
		}
	}
	fr.findLoops()
	order := fr.rpo()
	in := map[*ssa.BasicBlock][]edge{}
	in[fn.Blocks[0]] = []edge{{cond: R, st: st}}
	for _, b := range order {
		edges := in[b]
		if len(edges) == 0 {
			continue // unreachable
		}
		var conds []string
		var states []*State
		for _, e := range edges {
			conds = append(conds, e.cond)
			states = append(states, e.st)
		}
		fr.curBlock = b
		Rb := c.define("R_"+fn.Name()+"_"+fmt.Sprint(b.Index), SBool, tOr(conds...))
		if fr.blockR == nil {
			fr.blockR = map[*ssa.BasicBlock]string{}
		}
		fr.blockR[b] = Rb
		cur := c.mergeStates(conds, states)
		li := fr.loops[b]
		// phis
		phiVals := map[*ssa.Phi]Val{}
		for _, ins := range b.Instrs {
			phi, ok := ins.(*ssa.Phi)
			if !ok {
				break
			}
			var vs []Val
			var cs []string
			for _, e := range edges {
				for pi, p := range b.Preds {
					if p == e.from {
						vs = append(vs, fr.val(phi.Edges[pi]))
						cs = append(cs, e.cond)
						break
					}
				}
			}
			phiVals[phi] = c.mergeVals(cs, vs, phi.Type())
		}
		if li != nil {
			// loop header: check invariants on entry, havoc, assume
			li.entry = cur.clone()
			li.pre = phiVals
			c.curPos = b.Instrs[0].Pos()
			fr.checkInvariants(li, cur, phiVals, Rb, "init")
			cur = fr.havocLoop(li, cur, Rb)
			li.hstate = cur.clone()
			phiVals = li.phis
			fr.assumeInvariants(li, cur, phiVals, Rb)
			li.headR = Rb
		}
		for phi, v := range phiVals {
			fr.vals[phi] = v
		}
		// a phi is the current value of the variable it merges: record it like a reference, so that a name used in an
		// annotation after the merge is not bound to one of the merged definitions
		for _, ins := range b.Instrs {
			phi, ok := ins.(*ssa.Phi)
			if !ok {
				break
			}
			if phi.Comment != "" && phi.Comment != "rangeindex" {
				if fr.refs == nil {
					fr.refs = map[string][]refRec{}
				}
				fr.refs[phi.Comment] = append(fr.refs[phi.Comment], refRec{b, phi})
			}
		}
		// instructions
		dead := false
		for _, ins := range b.Instrs {
			if _, ok := ins.(*ssa.Phi); ok {
				continue
			}
			if p := ins.Pos(); p.IsValid() {
				c.curPos = p
			}
			switch t := ins.(type) {
			case *ssa.If:
				cv := fr.val(t.Cond).L[0]
				cd := c.define("c", SBool, cv)
				fr.addEdge(in, b, b.Succs[0], tAnd(Rb, cd), cur)
				fr.addEdge(in, b, b.Succs[1], tAnd(Rb, tNot(cd)), cur)
			case *ssa.Jump:
				fr.addEdge(in, b, b.Succs[0], Rb, cur)
			case *ssa.Return:
				var vs []Val
				for _, r := range t.Results {
					vs = append(vs, fr.val(r))
				}
				fr.rets = append(fr.rets, retInfo{cond: Rb, st: cur, vals: vs, pos: t.Pos()})
			case *ssa.Panic:
				c.oblige("safety", fr.oblName("safety.panic"), Rb, "false")
				dead = true
			default:
				fr.exec(ins, cur, Rb)
			}
			if dead {
				break
			}
		}
	}
	if fr.root == nil {
		for _, la := range fr.loopAnns() {
			if !la.matched {
				c.fail("loop annotation %q of %s matches no loop", la.Desc, fr.fn)
			}
		}
	}
	if fr.top && fr.contract != nil {
		for _, ca := range fr.contract.Calls {
			if !ca.matched {
				c.fail("call-site annotation %q of %s matches no call", ca.Callee, fr.fn)
			}
		}
	}
	if len(fr.rets) == 0 {
		return nil, st, "false"
	}
	var conds []string
	var states []*State
	for _, r := range fr.rets {
		conds = append(conds, r.cond)
		states = append(states, r.st)
	}
	Rret := c.define("Rret_"+fn.Name(), SBool, tOr(conds...))
	out := c.mergeStates(conds, states)
	var rv []Val
	res := fn.Signature.Results()
	for i := 0; i < res.Len(); i++ {
		var vs []Val
		for _, r := range fr.rets {
			vs = append(vs, r.vals[i])
		}
		rv = append(rv, c.mergeVals(conds, vs, res.At(i).Type()))
	}
	return rv, out, Rret
}

// localAliases of the function under contract (computed once).
func (fr *Frame) localAliases() map[string][]string {
	if !fr.aliasOK {
		fr.aliasOK = true
		if fr.contract != nil {
			fr.aliases = fr.c.W.localAliases(fr.fn, fr.contract)
		}
	}
	return fr.aliases
}

// renamedDesc rewrites the identifiers of a loop descriptor that were renamed since the contract was written (only
// names with exactly one current name).
func (fr *Frame) renamedDesc(desc string) string {
	al := fr.localAliases()
	if len(al) == 0 {
		return desc
	}
	var b strings.Builder
	i := 0
	for i < len(desc) {
		c := desc[i]
		if c == '_' || (c >= 'a' && c <= 'z') || (c >= 'A' && c <= 'Z') {
			j := i
			for j < len(desc) && (desc[j] == '_' || (desc[j] >= 'a' && desc[j] <= 'z') || (desc[j] >= 'A' && desc[j] <= 'Z') || (desc[j] >= '0' && desc[j] <= '9')) {
				j++
			}
			w := desc[i:j]
			prevDot := i > 0 && desc[i-1] == '.'
			if cands, ok := al[w]; ok && len(cands) == 1 && !prevDot {
				w = cands[0]
			}
			b.WriteString(w)
			i = j
			continue
		}
		b.WriteByte(c)
		i++
	}
	return b.String()
}

// expandLoopDescs numbers the loop descriptors of fn over the text with every contract-less repository function it
// calls expanded at the call (recursively): "for()#2" keeps meaning the same loop when another "for()" loop is moved into
// a helper, and a loop that ranges over a helper's parameter is described by the caller's name for the argument.
func (fr *Frame) expandLoopDescs(fn *ssa.Function, posPath string, subst map[string]string, stack []*ssa.Function, counts map[string]int) {
	w := fr.c.W
	syn := fn.Syntax()
	if syn == nil || fn.Pkg == nil {
		return
	}
	var body *ast.BlockStmt
	switch d := syn.(type) {
	case *ast.FuncDecl:
		body = d.Body
	case *ast.FuncLit:
		body = d.Body
	}
	if body == nil {
		return
	}
	pkg := w.allPkgs[fn.Pkg.Pkg.Path()]
	name := func(d string) string {
		if len(subst) > 0 {
			d = substIdents(d, subst)
		}
		counts[d]++
		if counts[d] > 1 {
			d = fmt.Sprintf("%s#%d", d, counts[d])
		}
		return d
	}
	ast.Inspect(body, func(n ast.Node) bool {
		switch x := n.(type) {
		case *ast.FuncLit:
			return false
		case *ast.RangeStmt:
			fr.expLoops[fmt.Sprintf("%s|%d", posPath, int(x.Pos()))] = name("range(" + normWS(w.nodeText(x.X)) + ")")
		case *ast.ForStmt:
			d := "for("
			if x.Cond != nil {
				d += normWS(w.nodeText(x.Cond))
			}
			fr.expLoops[fmt.Sprintf("%s|%d", posPath, int(x.Pos()))] = name(d + ")")
		case *ast.CallExpr:
			if pkg == nil || pkg.TypesInfo == nil || len(stack) > maxInlineDepth {
				return true
			}
			var obj types.Object
			switch f := x.Fun.(type) {
			case *ast.Ident:
				obj = pkg.TypesInfo.Uses[f]
			case *ast.SelectorExpr:
				if sel, ok := pkg.TypesInfo.Selections[f]; ok {
					obj = sel.Obj()
				} else {
					obj = pkg.TypesInfo.Uses[f.Sel]
				}
			}
			fo, ok := obj.(*types.Func)
			if !ok {
				return true
			}
			callee := w.prog.FuncValue(fo)
			if callee == nil || callee.Blocks == nil {
				return true
			}
			if fc := w.contracts[fnKey(callee)]; fc != nil && !fc.Flags["inline"] {
				return true
			}
			if !(w.isRepoPkg(pkgOf(callee)) || w.inlinePkg[pkgPath(callee)] || fr.c.inlineExtra[pkgPath(callee)]) {
				return true
			}
			for _, f := range stack {
				if f == callee {
					return true
				}
			}
			sub := map[string]string{}
			ps := callee.Params
			off := 0
			if callee.Signature.Recv() != nil {
				off = 1
				if se, ok := x.Fun.(*ast.SelectorExpr); ok && len(ps) > 0 {
					sub[ps[0].Name()] = substIdents(normWS(w.nodeText(se.X)), subst)
				}
			}
			for i, a := range x.Args {
				if i+off < len(ps) {
					sub[ps[i+off].Name()] = substIdents(normWS(w.nodeText(a)), subst)
				}
			}
			fr.expandLoopDescs(callee, fmt.Sprintf("%s/%d", posPath, int(x.Lparen)), sub, append(append([]*ssa.Function{}, stack...), callee), counts)
		}
		return true
	})
}

// substIdents replaces whole identifiers (not selectors after a dot) according to the map.
func substIdents(text string, m map[string]string) string {
	var b strings.Builder
	i := 0
	isId := func(c byte, first bool) bool {
		return c == '_' || (c >= 'a' && c <= 'z') || (c >= 'A' && c <= 'Z') || (!first && c >= '0' && c <= '9')
	}
	for i < len(text) {
		if isId(text[i], true) {
			j := i
			for j < len(text) && isId(text[j], false) {
				j++
			}
			w := text[i:j]
			if r, ok := m[w]; ok && !(i > 0 && text[i-1] == '.') {
				w = r
			}
			b.WriteString(w)
			i = j
			continue
		}
		b.WriteByte(text[i])
		i++
	}
	return b.String()
}

func (fr *Frame) loopAnns() []*LoopAnn {
	if fr.contract == nil {
		// a contract-less helper expanded in place: the loop annotations of the function under contract that matched no
		// loop of its own follow the statements into the helper
		if fr.root != nil && fr.root.contract != nil {
			var out []*LoopAnn
			for _, la := range fr.root.contract.Loops {
				if !la.matched || la.inHelper {
					out = append(out, la)
				}
			}
			return out
		}
		return nil
	}
	return fr.contract.Loops
}

func (fr *Frame) addEdge(in map[*ssa.BasicBlock][]edge, from, to *ssa.BasicBlock, cond string, st *State) {
	c := fr.c
	if li := fr.loops[to]; li != nil && to.Dominates(from) {
		// back edge: check invariant preservation with the phi values of this edge
		phiVals := map[*ssa.Phi]Val{}
		for _, ins := range to.Instrs {
			phi, ok := ins.(*ssa.Phi)
			if !ok {
				break
			}
			for pi, p := range to.Preds {
				if p == from {
					phiVals[phi] = fr.val(phi.Edges[pi])
				}
			}
		}
		fr.checkInvariants(li, st, phiVals, cond, "preserve")
		return
	}
	cd := c.define("E_"+fr.fn.Name()+fmt.Sprintf("_%d_%d", from.Index, to.Index), SBool, cond)
	in[to] = append(in[to], edge{cond: cd, st: st.clone(), from: from})
}

// findLoops computes natural loops from back edges.
func (fr *Frame) findLoops() {
	fr.loops = map[*ssa.BasicBlock]*loopInfo{}
	for _, b := range fr.fn.Blocks {
		for _, s := range b.Succs {
			if s.Dominates(b) {
				li := fr.loops[s]
				if li == nil {
					li = &loopInfo{header: s, blocks: map[*ssa.BasicBlock]bool{s: true}}
					fr.loops[s] = li
				}
				// natural loop of back edge b->s
				stack := []*ssa.BasicBlock{b}
				for len(stack) > 0 {
					x := stack[len(stack)-1]
					stack = stack[:len(stack)-1]
					if li.blocks[x] {
						continue
					}
					li.blocks[x] = true
					stack = append(stack, x.Preds...)
				}
			}
		}
	}
	if len(fr.loops) == 0 {
		return
	}
	// bind descriptors
	stmts := fr.c.W.loopStmts(fr.fn)
	for _, li := range fr.loops {
		var lo, hi token.Pos
		for b := range li.blocks {
			for _, ins := range b.Instrs {
				if _, ok := ins.(*ssa.DebugRef); ok {
					continue
				}
				if _, ok := ins.(*ssa.Phi); ok {
					continue
				}
				p := ins.Pos()
				if !p.IsValid() {
					continue
				}
				if lo == 0 || p < lo {
					lo = p
				}
				if p > hi {
					hi = p
				}
			}
		}
		best := -1
		// a map/string/channel range loop: the header's Next consumes a Range instruction positioned at the range
		// expression - bind to the range statement whose expression holds that position (the span heuristic below
		// picks the inner statement when an outer loop's body consists of an inner loop only)
		for _, ins := range li.header.Instrs {
			nx, ok := ins.(*ssa.Next)
			if !ok {
				continue
			}
			if rg, ok := nx.Iter.(*ssa.Range); ok && rg.Pos().IsValid() {
				for i, s := range stmts {
					if rs, ok := s.node.(*ast.RangeStmt); ok && (rs.For == rg.Pos() || (rs.X.Pos() <= rg.Pos() && rg.Pos() <= rs.X.End())) {
						if best < 0 || (stmts[best].node.Pos() <= s.node.Pos() && s.node.End() <= stmts[best].node.End()) {
							best = i
						}
					}
				}
			}
		}
		byNext := best >= 0
		for i, s := range stmts {
			if byNext {
				break
			}
			if s.node.Pos() <= lo && hi <= s.node.End() {
				if best < 0 || (stmts[best].node.Pos() <= s.node.Pos() && s.node.End() <= stmts[best].node.End()) {
					best = i
				}
			}
		}
		if best >= 0 {
			li.desc = stmts[best].desc
			// descriptors are numbered over the text with contract-less helpers expanded in place
			top := fr
			if fr.root != nil {
				top = fr.root
			}
			if top.top && top.contract != nil {
				if top.expLoops == nil {
					top.expLoops = map[string]string{}
					top.expandLoopDescs(top.fn, "", nil, []*ssa.Function{top.fn}, map[string]int{})
				}
				if d, ok := top.expLoops[fmt.Sprintf("%s|%d", fr.posPath, int(stmts[best].node.Pos()))]; ok {
					li.desc = d
				}
			}
		} else {
			li.desc = fmt.Sprintf("block%d", li.header.Index)
		}
		if os.Getenv("GOVC_DEBUGLOOPS") != "" {
			fmt.Fprintf(os.Stderr, "loop header block %d of %s: %s\n", li.header.Index, fr.fn.Name(), li.desc)
		}
		for _, la := range fr.loopAnns() {
			hit := la.Desc == li.desc || fr.renamedDesc(la.Desc) == li.desc
			if !hit && fr.root != nil && len(fr.argSrc) > 0 {
				// a loop moved into a helper ranges over a parameter: compare with the caller's name for the argument
				d := substIdents(li.desc, fr.argSrc)
				hit = la.Desc == d || fr.root.renamedDesc(la.Desc) == d
			}
			if hit {
				li.ann = la
				la.matched = true
				if fr.root != nil {
					la.inHelper = true
				}
			}
		}
	}
}

func (fr *Frame) rpo() []*ssa.BasicBlock {
	seen := map[*ssa.BasicBlock]bool{}
	var post []*ssa.BasicBlock
	var dfs func(b *ssa.BasicBlock)
	dfs = func(b *ssa.BasicBlock) {
		seen[b] = true
		for _, s := range b.Succs {
			if s.Dominates(b) {
				continue // back edge
			}
			if !seen[s] {
				dfs(s)
			}
		}
		post = append(post, b)
	}
	dfs(fr.fn.Blocks[0])
	for i, j := 0, len(post)-1; i < j; i, j = i+1, j-1 {
		post[i], post[j] = post[j], post[i]
	}
	return post
}

// mergeStates merges predecessor states guarded by their edge conditions.
func (c *Ctx) mergeStates(conds []string, states []*State) *State {
	if len(states) == 1 {
		return states[0].clone()
	}
	out := &State{heap: map[string]string{}, cells: map[*Cell]Val{}}
	keys := map[string]bool{}
	for _, s := range states {
		for k := range s.heap {
			keys[k] = true
		}
	}
	var ks []string
	for k := range keys {
		ks = append(ks, k)
	}
	sort.Strings(ks)
	for _, k := range ks {
		var ts []string
		same := true
		for _, s := range states {
			t := c.comp(s, k, c.compSort[k])
			ts = append(ts, t)
			if t != ts[0] {
				same = false
			}
		}
		if same {
			out.heap[k] = ts[0]
			continue
		}
		if os.Getenv("GOVC_MERGE") == "eq" {
			// a fresh component equal to the predecessor's version under each (mutually exclusive) edge condition:
			// equalities let the solver's congruence closure identify the versions after the case split
			m := c.fresh(k, c.compSort[k])
			for i := range ts {
				c.assume(conds[i], tEq(m, ts[i]))
			}
			out.heap[k] = m
			continue
		}
		t := ts[len(ts)-1]
		for i := len(ts) - 2; i >= 0; i-- {
			t = tIte(conds[i], ts[i], t)
		}
		out.heap[k] = c.define(k, c.compSort[k], t)
	}
	cells := map[*Cell]bool{}
	for _, s := range states {
		for k := range s.cells {
			cells[k] = true
		}
	}
	var cl []*Cell
	for k := range cells {
		cl = append(cl, k)
	}
	sort.Slice(cl, func(i, j int) bool { return cl[i].id < cl[j].id })
	for _, k := range cl {
		var vs []Val
		var cs []string
		for i, s := range states {
			if v, ok := s.cells[k]; ok {
				vs = append(vs, v)
				cs = append(cs, conds[i])
			}
		}
		out.cells[k] = c.mergeVals(cs, vs, k.T)
	}
	return out
}

func (c *Ctx) mergeVals(conds []string, vs []Val, T types.Type) Val {
	if len(vs) == 0 {
		c.fail("merge of no values")
	}
	if len(vs) == 1 {
		return vs[0]
	}
	same := true
	for _, v := range vs[1:] {
		if !sameVal(v, vs[0]) {
			same = false
		}
	}
	if same {
		return vs[0]
	}
	for _, v := range vs {
		if v.P != nil || v.Fn != nil {
			// Go-side pointers can only be merged when identical
			c.fail("cannot merge distinct Go-side pointers of type %s", T)
		}
	}
	n := len(vs[0].L)
	out := Val{T: vs[0].T, ST: vs[0].ST, L: make([]string, n)}
	if len(vs[0].Tup) > 0 {
		c.fail("merge of tuples")
	}
	ls := []Leaf(nil)
	if out.T != nil && out.ST == nil {
		ls = c.leaves(out.T)
	}
	for i := 0; i < n; i++ {
		t := vs[len(vs)-1].L[i]
		for k := len(vs) - 2; k >= 0; k-- {
			if len(vs[k].L) != n {
				c.fail("merge of values with different shapes (%s)", T)
			}
			t = tIte(conds[k], vs[k].L[i], t)
		}
		sort := ""
		if ls != nil {
			sort = ls[i].Sort
		} else {
			sort = c.sortOfRT(&resolvedType{S: out.ST})
		}
		out.L[i] = c.define("m", sort, t)
	}
	return out
}

func sameVal(a, b Val) bool {
	if len(a.L) != len(b.L) || (a.P == nil) != (b.P == nil) || a.Fn != b.Fn {
		return false
	}
	for i := range a.L {
		if a.L[i] != b.L[i] {
			return false
		}
	}
	if a.P != nil {
		if *a.P != *b.P {
			return false
		}
	}
	return true
}

// ---------------------------------------------------------------------------
// values

func (fr *Frame) val(v ssa.Value) Val {
	c := fr.c
	if x, ok := fr.vals[v]; ok {
		return x
	}
	switch t := v.(type) {
	case *ssa.Const:
		return c.constVal(t)
	case *ssa.Global:
		el := t.Type().(*types.Pointer).Elem()
		if isStruct(el) || isArray(el) {
			name := "glob_" + sanitize(t.Pkg.Pkg.Name()+"."+t.Name())
			c.declFun(name, "", SRef)
			c.raw("globnn:"+name, fmt.Sprintf("(assert (not (= %s null)))", name))
			return Val{T: t.Type(), L: []string{name}}
		}
		return Val{T: t.Type(), P: &Ptr{Kind: PGlobal, Glob: t, ElemT: el}}
	case *ssa.Function:
		name := "fn_" + sanitize(fnKey(t))
		c.declFun(name, "", SRef)
		c.raw("fnnn:"+name, fmt.Sprintf("(assert (not (= %s null)))", name))
		return Val{T: t.Type(), L: []string{name}, Fn: t}
	case *ssa.Builtin:
		return Val{T: t.Type()}
	}
	c.fail("value %s (%T) used before definition in %s", v.Name(), v, fr.fn)
	return Val{}
}

func (c *Ctx) constVal(k *ssa.Const) Val {
	T := k.Type()
	if k.Value == nil {
		if isNilT(T) {
			return Val{T: T, L: []string{"null"}}
		}
		return c.zeroVal(T)
	}
	switch k.Value.Kind() {
	case constant.Bool:
		if constant.BoolVal(k.Value) {
			return boolVal("true")
		}
		return Val{T: T, L: []string{"false"}}
	case constant.Int:
		bi, _ := new(big.Int).SetString(k.Value.ExactString(), 10)
		ls := c.leaves(T)
		if w := sortWidth(ls[0].Sort); w > 0 {
			return Val{T: T, L: []string{bvLit(bi, w)}}
		}
	case constant.String:
		c.declStr()
		s := constant.StringVal(k.Value)
		return Val{T: T, L: []string{c.strLit(s)}}
	case constant.Float:
		return c.freshVal("fconst", T)
	}
	c.fail("constant %s of type %s", k, T)
	return Val{}
}

// ---------------------------------------------------------------------------
// instruction semantics

func (fr *Frame) safety(kind, text, R, cond string) {
	fr.c.oblige("safety", fr.oblName("safety."+kind+"{"+text+"}"), R, cond)
}

func (fr *Frame) srcText(ins ssa.Instruction) string {
	// a short, line-independent description of the instruction's operands
	s := ins.String()
	if v, ok := ins.(ssa.Value); ok {
		s = strings.TrimPrefix(s, v.Name()+" = ")
	}
	return fr.describe(ins)
}

// describe renders an instruction with SSA register names replaced by source-level names where known.
func (fr *Frame) describe(ins ssa.Instruction) string {
	var ops []*ssa.Value
	ops = ins.Operands(ops)
	s := ins.String()
	for _, op := range ops {
		if op == nil || *op == nil {
			continue
		}
		n := (*op).Name()
		if d := fr.srcName(*op); d != "" && d != n {
			s = replaceWord(s, n, d)
		}
	}
	if v, ok := ins.(ssa.Value); ok {
		if i := strings.Index(s, " = "); i >= 0 && strings.HasPrefix(s, v.Name()) {
			s = s[i+3:]
		}
	}
	return normWS(s)
}

func replaceWord(s, w, r string) string {
	var b strings.Builder
	i := 0
	for i < len(s) {
		j := strings.Index(s[i:], w)
		if j < 0 {
			b.WriteString(s[i:])
			break
		}
		j += i
		before := j == 0 || !isWordCh(s[j-1])
		after := j+len(w) >= len(s) || !isWordCh(s[j+len(w)])
		b.WriteString(s[i:j])
		if before && after {
			b.WriteString(r)
		} else {
			b.WriteString(w)
		}
		i = j + len(w)
	}
	return b.String()
}

func isWordCh(c byte) bool {
	return c == '_' || c >= '0' && c <= '9' || c >= 'a' && c <= 'z' || c >= 'A' && c <= 'Z'
}

// srcName gives a stable source-level rendering of an SSA value (field paths, params, locals).
func (fr *Frame) srcName(v ssa.Value) string {
	return fr.srcNameD(v, 0)
}

func (fr *Frame) srcNameD(v ssa.Value, d int) string {
	if d > 6 {
		return "_"
	}
	switch t := v.(type) {
	case *ssa.Parameter:
		return t.Name()
	case *ssa.FreeVar:
		return t.Name()
	case *ssa.Const:
		return t.String()
	case *ssa.Global:
		return t.Name()
	case *ssa.Alloc:
		if t.Comment != "" {
			return t.Comment
		}
		return "new"
	case *ssa.Phi:
		if t.Comment != "" {
			return t.Comment
		}
	case *ssa.FieldAddr:
		st := derefT(t.X.Type()).Underlying().(*types.Struct)
		return fr.srcNameD(t.X, d+1) + "." + st.Field(t.Field).Name()
	case *ssa.Field:
		st := t.X.Type().Underlying().(*types.Struct)
		return fr.srcNameD(t.X, d+1) + "." + st.Field(t.Field).Name()
	case *ssa.UnOp:
		if t.Op == token.MUL {
			return fr.srcNameD(t.X, d+1)
		}
	case *ssa.IndexAddr:
		return fr.srcNameD(t.X, d+1) + "[" + fr.srcNameD(t.Index, d+1) + "]"
	case *ssa.Extract:
		return fr.srcNameD(t.Tuple, d+1) + "#" + fmt.Sprint(t.Index)
	case *ssa.Call:
		if f := t.Call.StaticCallee(); f != nil {
			return f.Name() + "()"
		}
		if t.Call.IsInvoke() {
			return fr.srcNameD(t.Call.Value, d+1) + "." + t.Call.Method.Name() + "()"
		}
		return "call()"
	case *ssa.Slice:
		return fr.srcNameD(t.X, d+1) + "[:]"
	case *ssa.Convert:
		return fr.srcNameD(t.X, d+1)
	case *ssa.ChangeType:
		return fr.srcNameD(t.X, d+1)
	case *ssa.BinOp:
		return "(" + fr.srcNameD(t.X, d+1) + t.Op.String() + fr.srcNameD(t.Y, d+1) + ")"
	case *ssa.Lookup:
		return fr.srcNameD(t.X, d+1) + "[" + fr.srcNameD(t.Index, d+1) + "]"
	case *ssa.Next:
		return "next"
	case *ssa.TypeAssert:
		return fr.srcNameD(t.X, d+1) + ".(" + fr.c.typeKey(t.AssertedType) + ")"
	case *ssa.MakeInterface:
		return fr.srcNameD(t.X, d+1)
	}
	return "_"
}

func (fr *Frame) idx64(v ssa.Value) string {
	x := fr.val(v)
	return fr.c.convInt(x.L[0], v.Type(), types.Typ[types.Int])
}

func (fr *Frame) exec(ins ssa.Instruction, st *State, R string) {
	c := fr.c
	switch t := ins.(type) {
	case *ssa.DebugRef:
		if obj := t.Object(); obj != nil && !t.IsAddr {
			if fr.refs == nil {
				fr.refs = map[string][]refRec{}
			}
			fr.refs[obj.Name()] = append(fr.refs[obj.Name()], refRec{t.Block(), t.X})
		}
		return
	case *ssa.Alloc:
		el := t.Type().(*types.Pointer).Elem()
		switch {
		case isStruct(el):
			r := c.newRef(st, R, "obj_"+t.Comment)
			c.storeStruct(st, el, r, c.zeroVal(el))
			fr.vals[t] = Val{T: t.Type(), L: []string{r}}
		case isArray(el):
			r := c.newRef(st, R, "arr_"+t.Comment)
			a := el.Underlying().(*types.Array)
			c.zeroRows(st, a.Elem(), r)
			fr.vals[t] = Val{T: t.Type(), L: []string{r}}
		default:
			c.cellN++
			cell := &Cell{Name: t.Comment, T: el, id: c.cellN}
			st.cells[cell] = c.zeroVal(el)
			fr.vals[t] = Val{T: t.Type(), P: &Ptr{Kind: PCell, Cell: cell, ElemT: el}}
		}
	case *ssa.FieldAddr:
		x := fr.val(t.X)
		S := derefT(t.X.Type())
		if x.P != nil {
			fr.vals[t] = c.fieldPtr(x, S, t.Field)
			return
		}
		if !c.knownNonNil(x.L[0]) {
			fr.safety("nil", fr.srcName(t), R, tNot(tEq(x.L[0], "null")))
		}
		FT := S.Underlying().(*types.Struct).Field(t.Field).Type()
		if isStruct(FT) {
			fr.vals[t] = Val{T: t.Type(), L: []string{c.subRef(S, t.Field, x.L[0])}}
		} else {
			fr.vals[t] = Val{T: t.Type(), P: &Ptr{Kind: PField, S: S, Field: t.Field, Obj: x.L[0], ElemT: FT}}
		}
	case *ssa.Field:
		x := fr.val(t.X)
		off, n := c.fieldLeafRange(t.X.Type(), t.Field)
		fr.vals[t] = Val{T: t.Type(), L: x.L[off : off+n]}
	case *ssa.IndexAddr:
		x := fr.val(t.X)
		i := fr.idx64(t.Index)
		switch u := t.X.Type().Underlying().(type) {
		case *types.Slice:
			fr.safety("index", fr.srcName(t), R, app("bvult", i, x.L[2]))
			abs := c.define("ix", bvSort(64), idxAt(x.L[1], i))
			fr.vals[t] = Val{T: t.Type(), P: &Ptr{Kind: PElem, Obj: x.L[0], Idx: abs, ElemT: u.Elem(), Root: c.typeKey(u.Elem()), Bound: app("bvadd", x.L[1], x.L[2])}}
		case *types.Pointer:
			a := u.Elem().Underlying().(*types.Array)
			if !c.knownNonNil(x.L[0]) {
				fr.safety("nil", fr.srcName(t), R, tNot(tEq(x.L[0], "null")))
			}
			fr.safety("index", fr.srcName(t), R, app("bvult", i, bvI(a.Len(), 64)))
			fr.vals[t] = Val{T: t.Type(), P: &Ptr{Kind: PElem, Obj: x.L[0], Idx: i, ElemT: a.Elem(), Root: c.typeKey(a.Elem()), Bound: bvI(a.Len(), 64)}}
		default:
			c.fail("IndexAddr on %s", t.X.Type())
		}
	case *ssa.Index:
		x := fr.val(t.X)
		i := fr.idx64(t.Index)
		switch u := t.X.Type().Underlying().(type) {
		case *types.Array:
			fr.safety("index", fr.srcName(t), R, app("bvult", i, bvI(u.Len(), 64)))
			fr.vals[t] = c.loadElem(st, u.Elem(), x.L[0], i)
		case *types.Basic:
			c.declStr()
			fr.safety("index", fr.srcName(t), R, app("bvult", i, app("strlen", x.L[0])))
			fr.vals[t] = Val{T: t.Type(), L: []string{app("strbyte", x.L[0], i)}}
		default:
			c.fail("Index on %s", t.X.Type())
		}
	case *ssa.Lookup:
		x := fr.val(t.X)
		if _, ok := t.X.Type().Underlying().(*types.Map); ok {
			mi := c.mapInfo(t.X.Type())
			k := fr.val(t.Index)
			v := c.mapGet(st, mi, x.L[0], k.L[0])
			c.assumeValid(R, v)
			if t.CommaOk {
				ok := c.define("ok", SBool, c.mapHas(st, mi, x.L[0], k.L[0]))
				fr.vals[t] = Val{T: t.Type(), Tup: []Val{v, boolVal(ok)}}
			} else {
				fr.vals[t] = v
			}
			return
		}
		// string index
		c.declStr()
		i := fr.idx64(t.Index)
		fr.safety("index", fr.srcName(t), R, app("bvult", i, app("strlen", x.L[0])))
		fr.vals[t] = Val{T: t.Type(), L: []string{app("strbyte", x.L[0], i)}}
	case *ssa.UnOp:
		fr.execUnOp(t, st, R)
	case *ssa.Store:
		a := fr.val(t.Addr)
		v := fr.val(t.Val)
		if a.P != nil {
			c.storePtr(st, a.P, v)
			return
		}
		el := derefT(t.Addr.Type())
		if isStruct(el) {
			if !c.knownNonNil(a.L[0]) {
				fr.safety("nil", fr.srcName(t.Addr), R, tNot(tEq(a.L[0], "null")))
			}
			c.storeStruct(st, el, a.L[0], v)
			return
		}
		c.fail("store through opaque pointer %s", t.Addr.Type())
	case *ssa.BinOp:
		fr.vals[t] = fr.binop(t, R)
	case *ssa.Convert:
		fr.vals[t] = fr.convert(t, st, R)
	case *ssa.ChangeType:
		x := fr.val(t.X)
		x.T = t.Type()
		fr.vals[t] = x
	case *ssa.ChangeInterface:
		x := fr.val(t.X)
		x.T = t.Type()
		fr.vals[t] = x
	case *ssa.MakeInterface:
		x := fr.val(t.X)
		fr.vals[t] = Val{T: t.Type(), L: []string{c.makeIface(t.X.Type(), x)}}
	case *ssa.TypeAssert:
		fr.typeAssert(t, R)
	case *ssa.Extract:
		tup := fr.val(t.Tuple)
		if t.Index >= len(tup.Tup) {
			c.fail("extract #%d of %s", t.Index, t.Tuple.Name())
		}
		fr.vals[t] = tup.Tup[t.Index]
	case *ssa.MakeSlice:
		ln := fr.idx64(t.Len)
		cp := fr.idx64(t.Cap)
		fr.safety("makeslice", fr.srcName(t.Len), R, tAnd(app("bvsle", bvU(0, 64), ln), app("bvsle", ln, cp)))
		c.assume(R, app("bvult", ln, lenBound)) // larger allocations exhaust memory; out of scope
		el := t.Type().Underlying().(*types.Slice).Elem()
		r := c.newRef(st, R, "slice")
		c.zeroRows(st, el, r)
		fr.vals[t] = Val{T: t.Type(), L: []string{r, bvU(0, 64), ln}}
	case *ssa.Slice:
		fr.vals[t] = fr.slice(t, st, R)
	case *ssa.MakeMap:
		r := c.newRef(st, R, "map")
		c.mapMake(st, c.mapInfo(t.Type()), r)
		fr.vals[t] = Val{T: t.Type(), L: []string{r}}
	case *ssa.MapUpdate:
		m := fr.val(t.Map)
		mi := c.mapInfo(t.Map.Type())
		if !c.knownNonNil(m.L[0]) {
			fr.safety("nilmap", fr.srcName(t.Map), R, tNot(tEq(m.L[0], "null")))
		}
		c.mapSet(st, mi, m.L[0], fr.val(t.Key).L[0], fr.val(t.Value))
	case *ssa.Range:
		if _, ok := t.X.Type().Underlying().(*types.Map); !ok {
			c.fail("range over %s", t.X.Type())
		}
		mi := c.mapInfo(t.X.Type())
		c.cellN++
		cell := &Cell{Name: "visited", T: nil, id: c.cellN}
		fr.rcells[t] = cell
		vs := arrSort(mi.ksort, SBool)
		st.cells[cell] = Val{L: []string{fmt.Sprintf("((as const %s) false)", vs)}, ST: &SType{Kind: "set", Key: &resolvedType{Go: mi.K}}}
		fr.vals[t] = fr.val(t.X)
	case *ssa.Next:
		fr.next(t, st, R)
	case *ssa.MakeClosure:
		fn := t.Fn.(*ssa.Function)
		var binds []Val
		for _, b := range t.Bindings {
			binds = append(binds, fr.val(b))
		}
		r := c.newRef(st, R, "closure")
		fr.vals[t] = Val{T: t.Type(), L: []string{r}, Fn: fn, Bind: binds}
	case *ssa.Call:
		fr.vals[t] = fr.call(t, t.Common(), st, R)
	case *ssa.Go:
		c.note("go statement not executed: %s in %s", t.Call.String(), fr.fn.Name())
	case *ssa.Defer:
		c.note("deferred call not executed: %s in %s", t.Call.String(), fr.fn.Name())
	case *ssa.RunDefers:
	case *ssa.MakeChan:
		r := c.newRef(st, R, "chan")
		c.chanMake(st, r, fr.idx64(t.Size))
		fr.vals[t] = Val{T: t.Type(), L: []string{r}}
	case *ssa.Send:
		fr.send(t, st, R)
	case *ssa.Select:
		fr.selectInstr(t, st, R)
	default:
		c.fail("unsupported instruction %T: %s", ins, ins)
	}
}

func (c *Ctx) knownNonNil(t string) bool {
	return strings.HasPrefix(t, "obj_") || strings.HasPrefix(t, "arr_") || strings.HasPrefix(t, "(sub_") ||
		strings.HasPrefix(t, "glob_") || strings.HasPrefix(t, "slice!") || strings.HasPrefix(t, "map!")
}

// zeroRows zero-initialises all element rows of a fresh backing object.
func (c *Ctx) zeroRows(st *State, el types.Type, r string) {
	for _, l := range c.leaves(el) {
		key := "E|" + c.typeKey(el) + l.Path
		sort := arrSort(SRef, arrSort(bvSort(64), l.Sort))
		cur := c.comp(st, key, sort)
		z := c.zeroLeaf(l)
		if l.Sort == SRef || l.Sort == SIface || l.Sort == SStr {
			z = "0" // cvc5 wants a syntactic value here; null, inil and the empty string literal are all 0
		}
		c.setComp(st, key, sort, tStore(cur, r, fmt.Sprintf("((as const %s) %s)", arrSort(bvSort(64), l.Sort), z)))
	}
}

// fieldPtr: FieldAddr applied to a Go-side struct location (slice element of struct type).
func (c *Ctx) fieldPtr(x Val, S types.Type, field int) Val {
	p := *x.P
	if p.Kind != PElem {
		c.fail("field address of non-element location")
	}
	f := S.Underlying().(*types.Struct).Field(field)
	p.Path = p.Path + "." + f.Name()
	p.ElemT = f.Type()
	return Val{T: types.NewPointer(f.Type()), P: &p}
}

// element-location load/store with path (flattened struct elements)
func (c *Ctx) locKeys(p *Ptr) []Leaf {
	var out []Leaf
	for _, l := range c.leaves(p.ElemT) {
		out = append(out, Leaf{"E|" + p.Root + p.Path + l.Path, l.Sort, l.T})
	}
	return out
}

func (c *Ctx) loadLoc(st *State, p *Ptr) Val {
	ks := c.locKeys(p)
	v := Val{T: p.ElemT, L: make([]string, len(ks))}
	for i, k := range ks {
		v.L[i] = tSel(tSel(c.comp(st, k.Path, arrSort(SRef, arrSort(bvSort(64), k.Sort))), p.Obj), p.Idx)
	}
	return v
}

func (c *Ctx) storeLoc(st *State, p *Ptr, v Val) {
	ks := c.locKeys(p)
	if len(ks) != len(v.L) {
		c.fail("storeLoc: leaf mismatch for %s", p.ElemT)
	}
	for i, k := range ks {
		sort := arrSort(SRef, arrSort(bvSort(64), k.Sort))
		cur := c.comp(st, k.Path, sort)
		c.setComp(st, k.Path, sort, tStore(cur, p.Obj, tStore(tSel(cur, p.Obj), p.Idx, v.L[i])))
	}
}

func (fr *Frame) execUnOp(t *ssa.UnOp, st *State, R string) {
	c := fr.c
	x := fr.val(t.X)
	switch t.Op {
	case token.MUL:
		if x.P != nil {
			fr.vals[t] = c.loadPtr(st, x.P)
			return
		}
		el := derefT(t.X.Type())
		if isStruct(el) {
			if !c.knownNonNil(x.L[0]) {
				fr.safety("nil", fr.srcName(t.X), R, tNot(tEq(x.L[0], "null")))
			}
			fr.vals[t] = c.loadStruct(st, el, x.L[0])
			return
		}
		c.fail("load through opaque pointer %s", t.X.Type())
	case token.NOT:
		fr.vals[t] = Val{T: t.Type(), L: []string{tNot(x.L[0])}}
	case token.SUB:
		fr.vals[t] = Val{T: t.Type(), L: []string{app("bvneg", x.L[0])}}
	case token.XOR:
		fr.vals[t] = Val{T: t.Type(), L: []string{app("bvnot", x.L[0])}}
	case token.ARROW:
		fr.recv(t, st, R)
	default:
		c.fail("unop %s", t.Op)
	}
}

func (fr *Frame) binop(t *ssa.BinOp, R string) Val {
	c := fr.c
	x, y := fr.val(t.X), fr.val(t.Y)
	XT := t.X.Type()
	switch t.Op {
	case token.EQL, token.NEQ:
		var eq string
		switch {
		case isNilConst(t.Y):
			eq = c.isNil(Val{T: XT, L: x.L, P: x.P})
		case isNilConst(t.X):
			eq = c.isNil(Val{T: t.Y.Type(), L: y.L, P: y.P})
		default:
			if x.P != nil || y.P != nil {
				c.fail("comparison of Go-side pointers")
			}
			if _, ok := XT.Underlying().(*types.Slice); ok {
				c.fail("slice comparison")
			}
			var parts []string
			for i := range x.L {
				parts = append(parts, tEq(x.L[i], y.L[i]))
			}
			eq = tAnd(parts...)
		}
		if t.Op == token.NEQ {
			eq = tNot(eq)
		}
		return Val{T: t.Type(), L: []string{c.define("cmp", SBool, eq)}}
	}
	if b, ok := XT.Underlying().(*types.Basic); ok && b.Info()&types.IsString != 0 {
		c.declStr()
		switch t.Op {
		case token.ADD:
			c.declFun("strcat", SStr+" "+SStr, SStr)
			r := app("strcat", x.L[0], y.L[0])
			c.assume("true", tEq(app("strlen", r), app("bvadd", app("strlen", x.L[0]), app("strlen", y.L[0]))))
			return Val{T: t.Type(), L: []string{r}}
		case token.LSS, token.LEQ, token.GTR, token.GEQ:
			c.declFun("strlt", SStr+" "+SStr, SBool)
			switch t.Op {
			case token.LSS:
				return boolVal(app("strlt", x.L[0], y.L[0]))
			case token.GTR:
				return boolVal(app("strlt", y.L[0], x.L[0]))
			case token.LEQ:
				return boolVal(tNot(app("strlt", y.L[0], x.L[0])))
			default:
				return boolVal(tNot(app("strlt", x.L[0], y.L[0])))
			}
		}
	}
	if b, ok := XT.Underlying().(*types.Basic); ok && b.Info()&types.IsFloat != 0 {
		c.note("floating point arithmetic abstracted in %s", fr.fn.Name())
		return c.freshVal("float", t.Type())
	}
	if isBoolT(XT) {
		switch t.Op {
		case token.AND, token.LAND:
			return boolVal(tAnd(x.L[0], y.L[0]))
		case token.OR, token.LOR:
			return boolVal(tOr(x.L[0], y.L[0]))
		}
	}
	if !isInteger(XT) {
		c.fail("binop %s on %s", t.Op, XT)
	}
	signed := isSigned(XT)
	w := sortWidth(c.leaves(XT)[0].Sort)
	a, b := x.L[0], y.L[0]
	var r string
	switch t.Op {
	case token.ADD:
		r = app("bvadd", a, b)
	case token.SUB:
		r = app("bvsub", a, b)
	case token.MUL:
		r = app("bvmul", a, b)
	case token.QUO, token.REM:
		fr.safety("divzero", fr.srcName(t), R, tNot(tEq(b, bvU(0, w))))
		op := map[bool]map[token.Token]string{true: {token.QUO: "bvsdiv", token.REM: "bvsrem"}, false: {token.QUO: "bvudiv", token.REM: "bvurem"}}[signed][t.Op]
		r = app(op, a, b)
	case token.AND:
		r = app("bvand", a, b)
	case token.OR:
		r = app("bvor", a, b)
	case token.XOR:
		r = app("bvxor", a, b)
	case token.AND_NOT:
		r = app("bvand", a, app("bvnot", b))
	case token.SHL, token.SHR:
		YT := t.Y.Type()
		wy := sortWidth(c.leaves(YT)[0].Sort)
		if isSigned(YT) {
			if _, isConst := t.Y.(*ssa.Const); !isConst {
				fr.safety("shift", fr.srcName(t), R, app("bvsge", b, bvU(0, wy)))
			}
		}
		var cnt string
		switch {
		case wy == w:
			cnt = b
		case wy < w:
			cnt = app(fmt.Sprintf("(_ zero_extend %d)", w-wy), b)
		default:
			cnt = tIte(app("bvuge", b, bvU(uint64(w), wy)), bvU(uint64(w), w), app(fmt.Sprintf("(_ extract %d 0)", w-1), b))
		}
		switch {
		case t.Op == token.SHL:
			r = app("bvshl", a, cnt)
		case signed:
			r = app("bvashr", a, cnt)
		default:
			r = app("bvlshr", a, cnt)
		}
	case token.LSS, token.LEQ, token.GTR, token.GEQ:
		op := map[token.Token][2]string{token.LSS: {"bvult", "bvslt"}, token.LEQ: {"bvule", "bvsle"}, token.GTR: {"bvugt", "bvsgt"}, token.GEQ: {"bvuge", "bvsge"}}[t.Op]
		o := op[0]
		if signed {
			o = op[1]
		}
		return Val{T: t.Type(), L: []string{c.define("cmp", SBool, app(o, a, b))}}
	default:
		c.fail("binop %s", t.Op)
	}
	return Val{T: t.Type(), L: []string{c.define("b", bvSort(w), r)}}
}

func isNilConst(v ssa.Value) bool {
	k, ok := v.(*ssa.Const)
	return ok && k.Value == nil && !isStruct(k.Type()) && func() bool {
		switch k.Type().Underlying().(type) {
		case *types.Pointer, *types.Slice, *types.Map, *types.Chan, *types.Interface, *types.Signature:
			return true
		case *types.Basic:
			return k.Type().Underlying().(*types.Basic).Kind() == types.UntypedNil || k.Type().Underlying().(*types.Basic).Kind() == types.UnsafePointer
		}
		return false
	}()
}

func (fr *Frame) convert(t *ssa.Convert, st *State, R string) Val {
	c := fr.c
	x := fr.val(t.X)
	from, to := t.X.Type(), t.Type()
	fb, fok := from.Underlying().(*types.Basic)
	tb, tok := to.Underlying().(*types.Basic)
	switch {
	case fok && tok && fb.Info()&types.IsInteger != 0 && tb.Info()&types.IsInteger != 0:
		return Val{T: to, L: []string{c.define("cv", c.leaves(to)[0].Sort, c.convInt(x.L[0], from, to))}}
	case tok && tb.Kind() == types.UnsafePointer:
		return Val{T: to, L: x.L, P: x.P}
	case fok && fb.Kind() == types.UnsafePointer:
		if x.P != nil && x.P.Kind == PElem {
			el := derefT(to)
			if b, ok := el.Underlying().(*types.Basic); ok && b.Kind() == types.Uint32 {
				if eb, ok := x.P.ElemT.Underlying().(*types.Basic); ok && eb.Kind() == types.Uint8 && x.P.Path == "" {
					p := *x.P
					p.Cast32 = true
					fr.safety("unsafe", fr.srcName(t.X), R, app("bvule", app("bvadd", p.Idx, bvU(4, 64)), p.Bound))
					c.note("unsafe cast *byte -> *uint32 modelled as four little-endian byte accesses (A-LE)")
					return Val{T: to, P: &p}
				}
			}
		}
		c.fail("unsupported unsafe pointer conversion to %s", to)
	case fok && tok && fb.Info()&types.IsString != 0 && tb.Info()&types.IsString != 0:
		return Val{T: to, L: x.L}
	case tok && tb.Info()&types.IsString != 0:
		c.declStr()
		if _, ok := from.Underlying().(*types.Slice); ok {
			// string(bytes)
			c.declFun("str_of_bytes", arrSort(bvSort(64), bvSort(8))+" "+bvSort(64)+" "+bvSort(64), SStr)
			row := tSel(c.comp(st, "E|uint8", arrSort(SRef, arrSort(bvSort(64), bvSort(8)))), x.L[0])
			s := c.define("s", SStr, app("str_of_bytes", row, x.L[1], x.L[2]))
			c.assume("true", tEq(app("strlen", s), x.L[2]))
			return Val{T: to, L: []string{s}}
		}
		c.declFun("str_of_int", bvSort(64), SStr)
		return Val{T: to, L: []string{app("str_of_int", c.convInt(x.L[0], from, types.Typ[types.Int64]))}}
	case fok && fb.Info()&types.IsString != 0:
		// []byte(s)
		if sl, ok := to.Underlying().(*types.Slice); ok {
			if eb, ok := sl.Elem().Underlying().(*types.Basic); ok && eb.Kind() == types.Uint8 {
				c.declStr()
				r := c.newRef(st, R, "bytes")
				key := "E|uint8"
				sort := arrSort(SRef, arrSort(bvSort(64), bvSort(8)))
				row := c.fresh("row", arrSort(bvSort(64), bvSort(8)))
				c.assume("true", fmt.Sprintf("(forall ((i (_ BitVec 64))) (! (= (select %s i) (strbyte %s i)) :pattern ((select %s i))))", row, x.L[0], row))
				c.setComp(st, key, sort, tStore(c.comp(st, key, sort), r, row))
				return Val{T: to, L: []string{r, bvU(0, 64), app("strlen", x.L[0])}}
			}
		}
		c.fail("conversion from string to %s", to)
	case fok && fb.Info()&types.IsFloat != 0 || tok && tb.Info()&types.IsFloat != 0:
		c.note("floating point conversion abstracted in %s", fr.fn.Name())
		return c.freshVal("fconv", to)
	}
	if _, ok := to.Underlying().(*types.Pointer); ok {
		return Val{T: to, L: x.L, P: x.P}
	}
	c.fail("conversion %s -> %s", from, to)
	return Val{}
}

func (fr *Frame) typeAssert(t *ssa.TypeAssert, R string) {
	c := fr.c
	c.declIface()
	x := fr.val(t.X)
	T := t.AssertedType
	var ok string
	var v Val
	if types.IsInterface(T) {
		var alts []string
		for _, impl := range c.W.implementers(T) {
			alts = append(alts, tEq(app("itag", x.L[0]), c.typeID(impl)))
		}
		// non-repository dynamic types: unknown
		unk := c.fresh("implements", SBool)
		alts = append(alts, tAnd(unk, tNot(tEq(x.L[0], "inil"))))
		ok = c.define("ok", SBool, tOr(alts...))
		v = Val{T: T, L: []string{x.L[0]}}
	} else {
		ok = c.define("ok", SBool, tEq(app("itag", x.L[0]), c.typeID(T)))
		v = c.ifacePayload(x.L[0], T)
	}
	if t.CommaOk {
		// on failure the value is the zero value
		z := c.zeroVal(T)
		for i := range v.L {
			v.L[i] = tIte(ok, v.L[i], z.L[i])
		}
		fr.vals[t] = Val{T: t.Type(), Tup: []Val{v, boolVal(ok)}}
		return
	}
	fr.safety("typeassert", fr.srcName(t), R, ok)
	fr.vals[t] = v
}

func (fr *Frame) slice(t *ssa.Slice, st *State, R string) Val {
	c := fr.c
	x := fr.val(t.X)
	lo := bvU(0, 64)
	if t.Low != nil {
		lo = fr.idx64(t.Low)
	}
	switch u := t.X.Type().Underlying().(type) {
	case *types.Slice:
		hi := x.L[2]
		if t.High != nil {
			hi = fr.idx64(t.High)
		}
		// NOTE: capacity is not modelled; re-slicing beyond len (within cap) is reported as a violation candidate
		fr.safety("slice", fr.srcName(t), R, tAnd(app("bvule", lo, hi), app("bvule", hi, x.L[2])))
		return Val{T: t.Type(), L: []string{x.L[0], c.define("off", bvSort(64), app("bvadd", x.L[1], lo)), c.define("len", bvSort(64), app("bvsub", hi, lo))}}
	case *types.Pointer:
		a := u.Elem().Underlying().(*types.Array)
		n := bvI(a.Len(), 64)
		hi := n
		if t.High != nil {
			hi = fr.idx64(t.High)
		}
		if !c.knownNonNil(x.L[0]) {
			fr.safety("nil", fr.srcName(t.X), R, tNot(tEq(x.L[0], "null")))
		}
		fr.safety("slice", fr.srcName(t), R, tAnd(app("bvule", lo, hi), app("bvule", hi, n)))
		return Val{T: t.Type(), L: []string{x.L[0], lo, c.define("len", bvSort(64), app("bvsub", hi, lo))}}
	case *types.Basic:
		c.declStr()
		ln := app("strlen", x.L[0])
		hi := ln
		if t.High != nil {
			hi = fr.idx64(t.High)
		}
		fr.safety("slice", fr.srcName(t), R, tAnd(app("bvule", lo, hi), app("bvule", hi, ln)))
		c.declFun("substr", SStr+" "+bvSort(64)+" "+bvSort(64), SStr)
		s := c.define("s", SStr, app("substr", x.L[0], lo, hi))
		c.assume("true", tEq(app("strlen", s), app("bvsub", hi, lo)))
		return Val{T: t.Type(), L: []string{s}}
	}
	c.fail("slice of %s", t.X.Type())
	return Val{}
}

func (fr *Frame) next(t *ssa.Next, st *State, R string) {
	c := fr.c
	if t.IsString {
		c.fail("range over string")
	}
	rng := t.Iter.(*ssa.Range)
	cell := fr.rcells[rng]
	m := fr.val(rng.X)
	mi := c.mapInfo(rng.X.Type())
	visited := st.cells[cell].L[0]
	k := c.fresh("k", mi.ksort)
	ok := c.fresh("more", SBool)
	dom := tSel(c.mapDom(st, mi), m.L[0])
	nonnil := tNot(tEq(m.L[0], "null"))
	c.assume(R, tImp(ok, tAnd(nonnil, tSel(dom, k), tNot(tSel(visited, k)))))
	c.assume(R, tImp(tNot(ok), tOr(tNot(nonnil), fmt.Sprintf("(forall ((kk %s)) (=> (select %s kk) (select %s kk)))", mi.ksort, dom, visited))))
	nv := c.define("visited", arrSort(mi.ksort, SBool), tIte(ok, tStore(visited, k, "true"), visited))
	cv := st.cells[cell]
	st.cells[cell] = Val{L: []string{nv}, ST: cv.ST}
	kv := Val{T: mi.K, L: []string{k}}
	vv := c.mapGet(st, mi, m.L[0], k)
	c.assumeValid(R, vv)
	fr.vals[t] = Val{T: t.Type(), Tup: []Val{boolVal(ok), kv, vv}}
}
