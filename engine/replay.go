package main

import (
	"bytes"
	"context"
	"encoding/json"
	"fmt"
	"os"
	"os/exec"
	"path/filepath"
	"strings"
	"time"
)

// Replay: a model is replayed on the real code through an in-package test injected with `go test -overlay`.
// Templates live in /verif/replay/templates/<function key>.go ; they read the model from the file named by
// the environment variable VERIF_REPLAY_MODEL and print "REPLAY-CONFIRMED <label>" when the real code violates
// the named clause for the model's inputs.

func replayTemplate(verif, fn string) (string, string) {
	meta := filepath.Join(verif, "replay", "templates", fn+".json")
	data, err := os.ReadFile(meta)
	if err != nil {
		return "", ""
	}
	var m struct {
		Package string `json:"package_dir"`
		File    string `json:"file"`
	}
	if json.Unmarshal(data, &m) != nil {
		return "", ""
	}
	return m.Package, filepath.Join(verif, "replay", "templates", m.File)
}

func runReplay(verif, repo string, rf *ReplayFile) {
	pkgDir, tmpl := replayTemplate(verif, rf.Function)
	if tmpl == "" {
		return
	}
	rf.Template = tmpl
	dir, err := os.MkdirTemp("", "govc-replay-")
	if err != nil {
		return
	}
	defer os.RemoveAll(dir)
	modelPath := filepath.Join(dir, "model.json")
	md, _ := json.Marshal(map[string]interface{}{"obligation": rf.Obligation, "model": rf.Model})
	os.WriteFile(modelPath, md, 0o644)
	ov := map[string]map[string]string{"Replace": {filepath.Join(repo, pkgDir, "zz_verif_replay_test.go"): tmpl}}
	od, _ := json.Marshal(ov)
	ovPath := filepath.Join(dir, "overlay.json")
	os.WriteFile(ovPath, od, 0o644)
	ctx, cancel := context.WithTimeout(context.Background(), 150*time.Second)
	defer cancel()
	cmd := exec.CommandContext(ctx, "go", "test", "-overlay", ovPath, "-vet=off", "-timeout", "60s", "-count=1", "-v", "-run", "TestVerifReplay", "./"+pkgDir)
	cmd.Dir = repo
	cmd.Env = append(os.Environ(), "GOFLAGS=-mod=mod", "GOPROXY=off", "GOSUMDB=off", "GOTOOLCHAIN=local", "VERIF_REPLAY_MODEL="+modelPath)
	var out bytes.Buffer
	cmd.Stdout = &out
	cmd.Stderr = &out
	cmd.Run()
	rf.Replayed = true
	rf.ReplayLog = truncate(out.String(), 4000)
	rf.Confirmed = strings.Contains(out.String(), "REPLAY-CONFIRMED")
}

// cmdReplay re-runs a replay file.
func cmdReplay(args []string) int {
	if len(args) < 1 {
		fmt.Fprintln(os.Stderr, "usage: govc replay <file> [verif root]")
		return 2
	}
	data, err := os.ReadFile(args[0])
	if err != nil {
		fmt.Fprintln(os.Stderr, err)
		return 2
	}
	var rf ReplayFile
	if err := json.Unmarshal(data, &rf); err != nil {
		fmt.Fprintln(os.Stderr, err)
		return 2
	}
	verif := "/verif"
	if len(args) > 1 {
		verif = args[1]
	}
	repo := rf.Repo
	if repo == "" {
		repo = "/repo"
	}
	fmt.Printf("obligation: %s\nstatus: %s\nmodel: %v\n", rf.Obligation, rf.Status, rf.Model)
	rf.Replayed, rf.Confirmed = false, false
	runReplay(verif, repo, &rf)
	if !rf.Replayed {
		fmt.Println("no replay template for", rf.Function, "- the verifier output is:")
		fmt.Println(rf.SolverOut)
		return 1
	}
	fmt.Println(rf.ReplayLog)
	if rf.Confirmed {
		fmt.Println("replay: the real code exhibits the violation")
		return 1
	}
	fmt.Println("replay: the real code does not exhibit the violation for this model")
	return 0
}
