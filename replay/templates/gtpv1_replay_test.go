package gtpv1

// Replay driver for counterexamples of the gtpv1 contracts (injected with go test -overlay; never part of /repo).

import (
	"encoding/json"
	"fmt"
	"os"
	"strconv"
	"strings"
	"testing"
)

type verifModel struct {
	Obligation string            `json:"obligation"`
	Model      map[string]string `json:"model"`
}

func verifLoad(t *testing.T) verifModel {
	var m verifModel
	data, err := os.ReadFile(os.Getenv("VERIF_REPLAY_MODEL"))
	if err != nil {
		t.Skip("no model")
	}
	if err := json.Unmarshal(data, &m); err != nil {
		t.Fatal(err)
	}
	return m
}

func (m verifModel) u(name string) uint64 {
	s := m.Model[name]
	if s == "true" {
		return 1
	}
	v, _ := strconv.ParseUint(strings.TrimPrefix(s, "0x"), 16, 64)
	return v
}

func TestVerifReplay(t *testing.T) {
	m := verifLoad(t)
	defer func() {
		if p := recover(); p != nil {
			if strings.Contains(m.Obligation, "#safety") {
				fmt.Printf("REPLAY-CONFIRMED panic: %v\n", p)
				return
			}
			fmt.Printf("replay panicked: %v\n", p)
		}
	}()
	switch {
	case strings.Contains(m.Obligation, "PDUSessionContainer.Encode"):
		e := PDUSessionContainer{PDUType: uint8(m.u("e.PDUType")), QoSFlowID: uint8(m.u("e.QoSFlowID"))}
		n := int(m.u("b#len"))
		if n < 4 || n > 1<<16 {
			n = 4
		}
		b := make([]byte, n)
		for i := range b {
			b[i] = 0xa5
		}
		k, err := e.Encode(b)
		bad := []string{}
		if !(b[0] == 0x85 && b[1] == 1) {
			bad = append(bad, "hdr")
		}
		if !(b[2]>>4 == e.PDUType && b[2]&0x0f == 0) {
			bad = append(bad, "type")
		}
		if !(b[3]&0x3f == e.QoSFlowID && b[3]&0xc0 == 0) {
			bad = append(bad, "qfi")
		}
		if !(k == 4 && err == nil) {
			bad = append(bad, "ret")
		}
		for i := 4; i < n; i++ {
			if b[i] != 0xa5 {
				bad = append(bad, "frame")
				break
			}
		}
		fmt.Printf("inputs: PDUType=%d QFI=%d -> % x, failing clauses %v\n", e.PDUType, e.QoSFlowID, b[:4], bad)
		for _, l := range bad {
			if strings.Contains(m.Obligation, "#"+l) {
				fmt.Printf("REPLAY-CONFIRMED %s\n", l)
			}
		}
	case strings.Contains(m.Obligation, "Message.Encode") || strings.Contains(m.Obligation, "Message.Len"):
		msg := Message{Flags: uint8(m.u("m.Flags")), Type: uint8(m.u("m.Type")), TEID: uint32(m.u("m.TEID")),
			SequenceNumber: uint16(m.u("m.SequenceNumber")), NPDUNumber: uint8(m.u("m.NPDUNumber"))}
		np := int(m.u("m.Payload#len"))
		if np > 70000 {
			np = 70000
		}
		msg.Payload = make([]byte, np)
		for i := range msg.Payload {
			msg.Payload[i] = byte(i*7 + 1)
		}
		ne := int(m.u("m.Exts#len"))
		if ne > 1 {
			ne = 1
		}
		for i := 0; i < ne; i++ {
			// the model cannot name interface payloads; try every QFI / PDU type
			msg.Exts = append(msg.Exts, PDUSessionContainer{PDUType: 5, QoSFlowID: 0x2a})
		}
		want := 12 + 4*len(msg.Exts) + len(msg.Payload)
		bad := []string{}
		if l := msg.Len(); l != want {
			bad = append(bad, "len")
		}
		b := make([]byte, want)
		for i := range b {
			b[i] = 0xa5
		}
		n, err := msg.Encode(b)
		if !(b[0] == 0x34 && b[1] == msg.Type) {
			bad = append(bad, "fixed")
		}
		if uint16(b[2])<<8|uint16(b[3]) != uint16(want-8) {
			bad = append(bad, "length")
		}
		if uint32(b[4])<<24|uint32(b[5])<<16|uint32(b[6])<<8|uint32(b[7]) != msg.TEID {
			bad = append(bad, "teid")
		}
		if len(msg.Exts) == 0 && b[11] != 0 {
			bad = append(bad, "noext")
		}
		if len(msg.Exts) == 1 && !(b[11] == 0x85 && b[12] == 1 && b[13] == 5<<4 && b[14] == 0x2a && b[15] == 0) {
			bad = append(bad, "ext")
		}
		for j := range msg.Payload {
			if b[12+4*len(msg.Exts)+j] != msg.Payload[j] {
				bad = append(bad, "payload")
				break
			}
		}
		if !(n == want && err == nil) {
			bad = append(bad, "ret")
		}
		fmt.Printf("inputs: %+v -> failing clauses %v\n", msg.TEID, bad)
		for _, l := range bad {
			if strings.Contains(m.Obligation, "#"+l) {
				fmt.Printf("REPLAY-CONFIRMED %s\n", l)
			}
		}
	}
}
