package forwarder

// Replay driver for counterexamples of the forwarder contracts (injected with go test -overlay; never part of /repo).
// The simulated gtp5g kernel (a socketpair answering GET_FAR / GET_PDR / GET_QER from tables) is the demonstration
// harness written by the independent agent for seeded change C13-2, reused unchanged.

import (
	"encoding/binary"
	"encoding/json"
	"fmt"
	"os"
	"strings"
	"net"
	"sync"
	"syscall"
	"testing"
	"time"
	"unsafe"

	"github.com/khirono/go-genl"
	"github.com/khirono/go-nl"
	"github.com/sirupsen/logrus"
	"github.com/wmnsk/go-pfcp/ie"

	"github.com/free5gc/go-gtp5gnl"
	"github.com/free5gc/go-upf/internal/forwarder/buffnetlink"
	"github.com/free5gc/go-upf/internal/forwarder/perio"
	"github.com/free5gc/go-upf/internal/report"
)

// ---- a simulated gtp5g kernel module behind a socketpair -------------------

type demoConn struct {
	fd  int
	seq int
}

func (c *demoConn) Fd() int                    { return c.fd }
func (c *demoConn) Close()                     { syscall.Close(c.fd) }
func (c *demoConn) Read(b []byte) (int, error) { return syscall.Read(c.fd, b) }
func (c *demoConn) Write(b []byte) (int, error) {
	return syscall.Write(c.fd, b)
}

func (c *demoConn) Writev(iovs []syscall.Iovec) (int, error) {
	var buf []byte
	for _, iov := range iovs {
		buf = append(buf, unsafeBytes(iov)...)
	}
	return syscall.Write(c.fd, buf)
}

func unsafeBytes(iov syscall.Iovec) []byte {
	return unsafe.Slice(iov.Base, int(iov.Len))
}

func (c *demoConn) TakeSeq() int {
	c.seq++
	return c.seq
}

var demoNative = gtp5gnl.NativeEndian()

func demoEncode(e nl.Encoder) []byte {
	b := make([]byte, e.Len())
	if _, err := e.Encode(b); err != nil {
		panic(err)
	}
	return b
}

func demoU16s(vs ...uint16) nl.AttrBytes {
	b := make([]byte, 2*len(vs))
	for i, v := range vs {
		demoNative.PutUint16(b[2*i:], v)
	}
	return nl.AttrBytes(b)
}

// demoKernel answers GET_FAR / GET_PDR / GET_QER from fixed tables and acks
// everything else (e.g. the FAR update itself).
type demoKernel struct {
	reqMu sync.Mutex
	reqs  [][]byte // every request received (netlink header included)
	fd   int
	fars map[uint32][]byte // FAR id -> encoded attributes
	pdrs map[uint32][]byte
	qers map[uint32][]byte
}

func (k *demoKernel) serve() {
	buf := make([]byte, 64*1024)
	for {
		n, err := syscall.Read(k.fd, buf)
		if err != nil || n < 16+genl.SizeofHeader {
			return
		}
		req := make([]byte, n)
		copy(req, buf[:n])
		k.reqMu.Lock()
		k.reqs = append(k.reqs, req)
		k.reqMu.Unlock()
		typ := demoNative.Uint16(req[4:6])
		seq := demoNative.Uint32(req[8:12])
		cmd := req[16]
		// first attribute after LINK is always the object id (type 3)
		var id uint32
		b := req[16+genl.SizeofHeader:]
		for len(b) > 0 {
			hdr, hn, err := nl.DecodeAttrHdr(b)
			if err != nil {
				break
			}
			if hdr.MaskedType() == gtp5gnl.FAR_ID { // == PDR_ID == QER_ID == 3
				switch int(hdr.Len) - hn {
				case 2:
					id = uint32(demoNative.Uint16(b[hn:]))
				default:
					id = demoNative.Uint32(b[hn:])
				}
			}
			b = b[hdr.Len.Align():]
		}

		var body []byte
		switch cmd {
		case gtp5gnl.CMD_GET_FAR:
			body = k.fars[id]
		case gtp5gnl.CMD_GET_PDR:
			body = k.pdrs[id]
		case gtp5gnl.CMD_GET_QER:
			body = k.qers[id]
		}

		var out []byte
		if body != nil {
			out = append(out, demoMsg(typ, seq, append([]byte{cmd, 0, 0, 0}, body...))...)
		}
		// NLMSG_ERROR with errno 0 == ack
		errno := make([]byte, 4+16)
		if body == nil && cmd >= gtp5gnl.CMD_GET_PDR && cmd <= gtp5gnl.CMD_GET_QER {
			demoNative.PutUint32(errno, uint32(0xfffffffe)) // -ENOENT
		}
		out = append(out, demoMsg(syscall.NLMSG_ERROR, seq, errno)...)

		// nl.Client.Do registers its reply handler after the write
		time.Sleep(5 * time.Millisecond)
		if _, err := syscall.Write(k.fd, out); err != nil {
			return
		}
	}
}

func demoMsg(typ uint16, seq uint32, body []byte) []byte {
	for len(body)%4 != 0 {
		body = append(body, 0)
	}
	m := make([]byte, 16, 16+len(body))
	demoNative.PutUint32(m[0:4], uint32(16+len(body)))
	demoNative.PutUint16(m[4:6], typ)
	demoNative.PutUint32(m[8:12], seq)
	demoNative.PutUint32(m[12:16], 4242) // non-zero pid
	return append(m, body...)
}

// ---- the control-plane side buffer (stands in for pfcp.Sess queues) --------

type demoBufHandler struct {
	mu sync.Mutex
	q  map[report.BufInfo][][]byte
}

func (h *demoBufHandler) NotifySessReport(report.SessReport) {}

func (h *demoBufHandler) PopBufPkt(seid uint64, pdrid uint16) ([]byte, bool) {
	h.mu.Lock()
	defer h.mu.Unlock()
	k := report.BufInfo{SEID: seid, PDRID: pdrid}
	if len(h.q[k]) == 0 {
		return nil, false
	}
	p := h.q[k][0]
	h.q[k] = h.q[k][1:]
	return p, true
}


type verifModel struct {
	Obligation string            `json:"obligation"`
	Model      map[string]string `json:"model"`
}

func TestVerifReplay(t *testing.T) {
	var m verifModel
	data, err := os.ReadFile(os.Getenv("VERIF_REPLAY_MODEL"))
	if err != nil {
		t.Skip("no model")
	}
	if err := json.Unmarshal(data, &m); err != nil {
		t.Fatal(err)
	}
	defer func() {
		if p := recover(); p != nil {
			fmt.Printf("REPLAY-CONFIRMED panic: %v\n", p)
		}
	}()
	switch {
	case strings.Contains(m.Obligation, "SDFFilterFields.UnmarshalBinary#safety.slice"):
		// a Create PDR whose SDF Filter IE announces a flow description longer than the IE (FD flag, length 0xffff)
		g := &Gtp5g{log: logrus.WithField("replay", "forwarder")}
		sdf := ie.New(ie.SDFFilter, []byte{0x01, 0x00, 0xff, 0xff, 'x'})
		req := ie.NewCreatePDR(ie.NewPDRID(1), ie.NewPDI(ie.NewSourceInterface(ie.SrcInterfaceCore), sdf))
		fmt.Println("Gtp5g.CreatePDR with an SDF Filter IE {flags FD, FD length 0xffff, 1 byte of description}")
		err := g.CreatePDR(1, req)
		fmt.Printf("returned without panic: %v\n", err)
	case strings.Contains(m.Obligation, "OuterHeaderCreationFields.UnmarshalBinary#Uint32"):
		// a Create FAR whose Outer Header Creation IE has the C-TAG bit set and three more octets
		g := &Gtp5g{log: logrus.WithField("replay", "forwarder")}
		ohc := ie.New(ie.OuterHeaderCreation, []byte{0x00, 0x40, 1, 2, 3})
		req := ie.NewCreateFAR(ie.NewFARID(1), ie.NewForwardingParameters(ohc))
		fmt.Println("Gtp5g.CreateFAR with an Outer Header Creation IE {description 0x0040 (C-TAG), 3 octets}")
		err := g.CreateFAR(1, req)
		fmt.Printf("returned without panic: %v\n", err)
	case strings.Contains(m.Obligation, "Gtp5g.UpdateFAR#at{applyAction}.farid"):
		// FAR 1 of session 1 is buffering two packets for PDR 1.  The SMF switches it to FORW with an Update FAR IE whose
		// Apply Action child precedes the FAR ID child (any order is legal inside a grouped IE).
		got := verifFlush(t, ie.NewUpdateFAR(ie.NewApplyAction(0x02), ie.NewFARID(1)))
		fmt.Printf("Update FAR {Apply Action FORW, FAR ID 1}: %d of 2 buffered packets re-injected\n", got)
		if got != 2 {
			fmt.Println("REPLAY-CONFIRMED farid: the buffered packets of the FAR named by the IE are not released when its Apply Action child precedes its FAR ID child (applyAction was called with FAR id 0)")
		}
	case strings.Contains(m.Obligation, "URR#at{append}.period"):
		// Create/Update URR with a Measurement Period of 10 s: the attribute handed to gtp5g must be 10
		upd := strings.Contains(m.Obligation, "UpdateURR")
		urr := ie.NewCreateURR(ie.NewURRID(1), ie.NewMeasurementMethod(0, 1, 0), ie.NewReportingTriggers(0, 0, 0), ie.NewMeasurementPeriod(10*time.Second))
		if upd {
			urr = ie.NewUpdateURR(ie.NewURRID(1), ie.NewMeasurementPeriod(10*time.Second))
		}
		got, ok := verifURRPeriod(t, urr, upd)
		fmt.Printf("Measurement Period IE 10 s: attribute URR_MEASUREMENT_PERIOD sent to gtp5g = %d (found %v)\n", got, ok)
		if ok && got != 10 {
			fmt.Println("REPLAY-CONFIRMED period: the measurement period handed to the data plane is the low 32 bits of the duration in nanoseconds, not the IE's number of seconds")
		}
	case strings.Contains(m.Obligation, "UpdateURR#perio"):
		// URR 1 is created without the periodic trigger; an Update URR then sets PERIO with a 1 s period: from then on the
		// periodic-report server must query URR 1 of session 1 on every tick
		n := verifPerioAfterUpdate(t)
		fmt.Printf("Update URR {PERIO, period 1s}: periodic queries for the URR within 2.5 s: %d\n", n)
		if n == 0 {
			fmt.Println("REPLAY-CONFIRMED perio: a URR given the periodic trigger by Update URR is never registered for periodic querying")
		}
	case strings.Contains(m.Obligation, "BAR#at{append}.delay"):
		// Create/Update BAR with a Downlink Data Notification Delay of 3 x 50 ms: the attribute handed to gtp5g must be 3
		bar := ie.NewCreateBAR(ie.NewBARID(1), ie.NewDownlinkDataNotificationDelay(150*time.Millisecond))
		upd := strings.Contains(m.Obligation, "UpdateBAR")
		if upd {
			bar = ie.NewUpdateBARWithinSessionModificationRequest(ie.NewBARID(1), ie.NewDownlinkDataNotificationDelay(150*time.Millisecond))
		}
		got, ok := verifBARDelay(t, bar, upd)
		fmt.Printf("BAR delay IE 150ms (octet 3): attribute BAR_DOWNLINK_DATA_NOTIFICATION_DELAY sent to gtp5g = %d (found %v)\n", got, ok)
		if ok && got != 3 {
			fmt.Println("REPLAY-CONFIRMED delay: the delay handed to the data plane is the low byte of the duration in nanoseconds, not the IE's value")
		}
	default:
		fmt.Println("no replay case for", m.Obligation)
	}
}

// verifSim: a Gtp5g wired to the simulated kernel; cleanup must be called.
func verifSim(t *testing.T) (*Gtp5g, *demoKernel, func()) {
	fds, err := syscall.Socketpair(syscall.AF_UNIX, syscall.SOCK_DGRAM, 0)
	if err != nil {
		t.Fatal(err)
	}
	kernel := &demoKernel{fd: fds[1]}
	go kernel.serve()
	mux, err := nl.NewMux()
	if err != nil {
		t.Fatal(err)
	}
	muxDone := make(chan struct{})
	go func() {
		_ = mux.Serve()
		close(muxDone)
	}()
	conn := &demoConn{fd: fds[0]}
	g := &Gtp5g{
		log:    logrus.WithField("replay", "forwarder"),
		mux:    mux,
		client: &gtp5gnl.Client{Client: nl.NewClient(conn, mux), ID: 30},
		link:   &Gtp5gLink{link: &gtp5gnl.Link{Name: "upfgtp", Index: 7}},
	}
	return g, kernel, func() {
		mux.Close()
		<-muxDone
		syscall.Close(fds[0])
		syscall.Close(fds[1])
	}
}

func verifURRPeriod(t *testing.T, req *ie.IE, update bool) (uint32, bool) {
	g, kernel, done := verifSim(t)
	defer done()
	var wg sync.WaitGroup
	ps, err := perio.OpenServer(&wg)
	if err != nil {
		t.Fatal(err)
	}
	defer ps.Close()
	g.ps = ps
	if update {
		_, err = g.UpdateURR(1, req)
	} else {
		err = g.CreateURR(1, req)
	}
	if err != nil {
		fmt.Printf("URR call: %v\n", err)
	}
	kernel.reqMu.Lock()
	defer kernel.reqMu.Unlock()
	for _, r := range kernel.reqs {
		b := r[16+genl.SizeofHeader:]
		for len(b) > 0 {
			hdr, hn, err := nl.DecodeAttrHdr(b)
			if err != nil {
				break
			}
			if hdr.MaskedType() == gtp5gnl.URR_MEASUREMENT_PERIOD && int(hdr.Len)-hn >= 4 {
				return demoNative.Uint32(b[hn:]), true
			}
			b = b[hdr.Len.Align():]
		}
	}
	return 0, false
}

func verifPerioAfterUpdate(t *testing.T) int {
	g, _, done := verifSim(t)
	defer done()
	var wg sync.WaitGroup
	ps, err := perio.OpenServer(&wg)
	if err != nil {
		t.Fatal(err)
	}
	defer ps.Close()
	var mu sync.Mutex
	hits := 0
	ps.Handle(&demoBufHandler{}, func(m map[uint64][]uint32) (map[uint64][]report.USAReport, error) {
		mu.Lock()
		defer mu.Unlock()
		for _, u := range m[1] {
			if u == 1 {
				hits++
			}
		}
		return nil, nil
	})
	g.ps = ps
	if err := g.CreateURR(1, ie.NewCreateURR(ie.NewURRID(1), ie.NewMeasurementMethod(0, 1, 0), ie.NewReportingTriggers(0x02, 0, 0))); err != nil {
		fmt.Printf("CreateURR: %v\n", err)
	}
	if _, err := g.UpdateURR(1, ie.NewUpdateURR(ie.NewURRID(1), ie.NewReportingTriggers(0x01, 0, 0), ie.NewMeasurementPeriod(time.Second))); err != nil {
		fmt.Printf("UpdateURR: %v\n", err)
	}
	time.Sleep(2500 * time.Millisecond)
	mu.Lock()
	defer mu.Unlock()
	return hits
}

// verifBARDelay runs Create/Update BAR against the simulated kernel and returns the delay attribute of the request.
func verifBARDelay(t *testing.T, req *ie.IE, update bool) (uint8, bool) {
	fds, err := syscall.Socketpair(syscall.AF_UNIX, syscall.SOCK_DGRAM, 0)
	if err != nil {
		t.Fatal(err)
	}
	kernel := &demoKernel{fd: fds[1]}
	go kernel.serve()
	defer syscall.Close(fds[1])
	mux, err := nl.NewMux()
	if err != nil {
		t.Fatal(err)
	}
	muxDone := make(chan struct{})
	go func() {
		_ = mux.Serve()
		close(muxDone)
	}()
	defer func() {
		mux.Close()
		<-muxDone
		syscall.Close(fds[0])
	}()
	conn := &demoConn{fd: fds[0]}
	g := &Gtp5g{
		log:    logrus.WithField("replay", "forwarder"),
		mux:    mux,
		client: &gtp5gnl.Client{Client: nl.NewClient(conn, mux), ID: 30},
		link:   &Gtp5gLink{link: &gtp5gnl.Link{Name: "upfgtp", Index: 7}},
	}
	if update {
		err = g.UpdateBAR(1, req)
	} else {
		err = g.CreateBAR(1, req)
	}
	if err != nil {
		fmt.Printf("BAR call: %v\n", err)
	}
	kernel.reqMu.Lock()
	defer kernel.reqMu.Unlock()
	for _, r := range kernel.reqs {
		b := r[16+genl.SizeofHeader:]
		for len(b) > 0 {
			hdr, hn, err := nl.DecodeAttrHdr(b)
			if err != nil {
				break
			}
			if hdr.MaskedType() == gtp5gnl.BAR_DOWNLINK_DATA_NOTIFICATION_DELAY && int(hdr.Len)-hn >= 1 {
				return b[hn], true
			}
			b = b[hdr.Len.Align():]
		}
	}
	return 0, false
}

// verifFlush: session 1, FAR 1 (BUFF, peer = local "gNB", TEID 0x11223344) serves PDR 1 with QER 2 (QFI 9); two
// packets are buffered.  Returns how many well-formed G-PDUs the gNB receives after g.UpdateFAR(req).
func verifFlush(t *testing.T, req *ie.IE) int {
	const (
		lSeid = uint64(1)
		farid = uint32(1)
		pdrid = uint16(1)
		teid  = uint32(0x11223344)
		qfi   = uint8(9)
	)
	gnb, err := net.ListenUDP("udp4", &net.UDPAddr{IP: net.IPv4(127, 0, 0, 1)})
	if err != nil {
		t.Fatal(err)
	}
	defer gnb.Close()
	gnbPort := uint16(gnb.LocalAddr().(*net.UDPAddr).Port)
	upfConn, err := net.ListenUDP("udp4", &net.UDPAddr{IP: net.IPv4(127, 0, 0, 1)})
	if err != nil {
		t.Fatal(err)
	}
	defer upfConn.Close()
	fds, err := syscall.Socketpair(syscall.AF_UNIX, syscall.SOCK_DGRAM, 0)
	if err != nil {
		t.Fatal(err)
	}
	kernel := &demoKernel{
		fd: fds[1],
		fars: map[uint32][]byte{
			farid: demoEncode(nl.AttrList{
				{Type: gtp5gnl.FAR_ID, Value: nl.AttrU32(farid)},
				{Type: gtp5gnl.FAR_SEID, Value: nl.AttrU64(lSeid)},
				{Type: gtp5gnl.FAR_APPLY_ACTION, Value: nl.AttrU16(report.APPLY_ACT_BUFF | report.APPLY_ACT_NOCP)},
				{Type: gtp5gnl.FAR_FORWARDING_PARAMETER, Value: nl.AttrList{
					{Type: gtp5gnl.FORWARDING_PARAMETER_OUTER_HEADER_CREATION, Value: nl.AttrList{
						{Type: gtp5gnl.OUTER_HEADER_CREATION_DESCRIPTION, Value: nl.AttrU16(0x100)},
						{Type: gtp5gnl.OUTER_HEADER_CREATION_O_TEID, Value: nl.AttrU32(teid)},
						{Type: gtp5gnl.OUTER_HEADER_CREATION_PEER_ADDR_IPV4, Value: nl.AttrBytes{127, 0, 0, 1}},
						{Type: gtp5gnl.OUTER_HEADER_CREATION_PORT, Value: nl.AttrU16(gnbPort)},
					}},
				}},
				{Type: gtp5gnl.FAR_RELATED_TO_PDR, Value: demoU16s(pdrid)},
			}),
		},
		pdrs: map[uint32][]byte{
			uint32(pdrid): demoEncode(nl.AttrList{
				{Type: gtp5gnl.PDR_ID, Value: nl.AttrU16(pdrid)},
				{Type: gtp5gnl.PDR_SEID, Value: nl.AttrU64(lSeid)},
				{Type: gtp5gnl.PDR_FAR_ID, Value: nl.AttrU32(farid)},
				{Type: gtp5gnl.PDR_QER_ID, Value: nl.AttrU32(2)},
			}),
		},
		qers: map[uint32][]byte{
			2: demoEncode(nl.AttrList{
				{Type: gtp5gnl.QER_ID, Value: nl.AttrU32(2)},
				{Type: gtp5gnl.QER_SEID, Value: nl.AttrU64(lSeid)},
				{Type: gtp5gnl.QER_GATE, Value: nl.AttrU8(0)},
				{Type: gtp5gnl.QER_QFI, Value: nl.AttrU8(qfi)},
			}),
		},
	}
	go kernel.serve()
	defer syscall.Close(fds[1])
	mux, err := nl.NewMux()
	if err != nil {
		t.Fatal(err)
	}
	muxDone := make(chan struct{})
	go func() {
		_ = mux.Serve()
		close(muxDone)
	}()
	defer func() {
		mux.Close()
		<-muxDone
		syscall.Close(fds[0])
	}()
	conn := &demoConn{fd: fds[0]}
	handler := &demoBufHandler{q: map[report.BufInfo][][]byte{
		{SEID: lSeid, PDRID: pdrid}: {[]byte("payload-A"), []byte("payload-B")},
	}}
	bsnl := &buffnetlink.Server{}
	bsnl.Handle(handler)
	g := &Gtp5g{
		log:    logrus.WithField("replay", "forwarder"),
		mux:    mux,
		client: &gtp5gnl.Client{Client: nl.NewClient(conn, mux), ID: 30},
		link:   &Gtp5gLink{link: &gtp5gnl.Link{Name: "upfgtp", Index: 7}, conn: upfConn},
		bsnl:   bsnl,
	}
	if err := g.UpdateFAR(lSeid, req); err != nil {
		fmt.Printf("UpdateFAR: %v\n", err)
	}
	n := 0
	buf := make([]byte, 2048)
	for {
		_ = gnb.SetReadDeadline(time.Now().Add(500 * time.Millisecond))
		k, _, err := gnb.ReadFromUDP(buf)
		if err != nil {
			break
		}
		if k >= 16 && buf[0] == 0x34 && buf[1] == 255 && binary.BigEndian.Uint32(buf[4:8]) == teid {
			n++
		}
	}
	return n
}
