package pfcp

// Replay driver for counterexamples of the pfcp contracts (injected with go test -overlay; never part of /repo).

import (
	"encoding/json"
	"fmt"
	"net"
	"os"
	"strconv"
	"strings"
	"sync"
	"testing"
	"time"

	"github.com/wmnsk/go-pfcp/ie"
	"github.com/wmnsk/go-pfcp/message"

	"github.com/free5gc/go-upf/internal/forwarder"
	"github.com/free5gc/go-upf/internal/logger"
	"github.com/free5gc/go-upf/internal/report"
	"github.com/free5gc/go-upf/pkg/factory"
)

type verifModel struct {
	Obligation string            `json:"obligation"`
	Model      map[string]string `json:"model"`
}

func (m verifModel) u(name string) uint64 {
	v, _ := strconv.ParseUint(strings.TrimPrefix(m.Model[name], "0x"), 16, 64)
	return v
}

func verifNode() (*LocalNode, *RemoteNode) {
	var ln LocalNode
	rn := NewRemoteNode("smf1", &net.UDPAddr{IP: net.IPv4(10, 0, 0, 1), Port: 8805}, &ln, nil, logger.PfcpLog.WithField("t", "replay"))
	return &ln, rn
}

func TestVerifReplay(t *testing.T) {
	var m verifModel
	data, err := os.ReadFile(os.Getenv("VERIF_REPLAY_MODEL"))
	if err != nil {
		t.Skip("no model")
	}
	if err := json.Unmarshal(data, &m); err != nil {
		t.Fatal(err)
	}
	defer func() {
		if p := recover(); p != nil {
			fmt.Printf("REPLAY-CONFIRMED panic: %v\n", p)
		}
	}()
	switch {
	case strings.Contains(m.Obligation, "LocalNode.Sess#"), strings.Contains(m.Obligation, "LocalNode.DeleteSess#"), strings.Contains(m.Obligation, "PopBufPkt"):
		// a table with three sessions, the middle one released; the SEID comes from the model
		ln, rn := verifNode()
		rn.NewSess(10)
		s2 := rn.NewSess(11)
		rn.NewSess(12)
		rn.DeleteSess(s2.LocalID)
		seid := m.u("lSeid")
		if strings.Contains(m.Obligation, "DeleteSess") {
			_, err := ln.DeleteSess(seid)
			fmt.Printf("DeleteSess(%#x) -> err=%v\n", seid, err)
		} else {
			s, err := ln.Sess(seid)
			fmt.Printf("Sess(%#x) -> %v, err=%v\n", seid, s != nil, err)
			if strings.Contains(m.Obligation, "#found") || strings.Contains(m.Obligation, "#which") {
				live := seid == 1 || seid == 3
				if (err == nil) != live || (err == nil && s.LocalID != seid) {
					fmt.Println("REPLAY-CONFIRMED lookup disagrees with the live set")
				}
			}
		}
	case strings.Contains(m.Obligation, "LocalNode.RemoteSess#"):
		ln, rn := verifNode()
		s1 := rn.NewSess(10)
		rn.NewSess(11)
		rn.DeleteSess(s1.LocalID)
		s, err := ln.RemoteSess(m.u("rSeid"), rn.addr)
		fmt.Printf("RemoteSess(%#x) after a deletion -> %v, %v\n", m.u("rSeid"), s != nil, err)
	case strings.Contains(m.Obligation, "sendReqTo#txseq24"), strings.Contains(m.Obligation, "sendReqTo#wf"):
		cfg := &factory.Config{Pfcp: &factory.Pfcp{Addr: "127.0.0.1", NodeID: "127.0.0.1", RetransTimeout: time.Hour, MaxRetrans: 1}}
		s := NewPfcpServer(cfg, nil)
		conn, err := net.ListenUDP("udp4", &net.UDPAddr{IP: net.IPv4(127, 0, 0, 1)})
		if err != nil {
			t.Fatal(err)
		}
		defer conn.Close()
		s.conn = conn
		defer s.stopTrTimers()
		peer := conn.LocalAddr()
		s.txSeq = 1<<24 - 1
		for i := 0; i < 2; i++ {
			req := message.NewSessionReportRequest(0, 0, 1, 0, 0, ie.NewReportType(0, 0, 1, 0))
			if err := s.sendReqTo(req, peer); err != nil {
				t.Fatal(err)
			}
		}
		fmt.Printf("txSeq after two requests from 2^24-1: %#x\n", s.txSeq)
		for k, tx := range s.txTrans {
			wire := uint32(tx.msgBuf[12])<<16 | uint32(tx.msgBuf[13])<<8 | uint32(tx.msgBuf[14])
			fmt.Printf("outstanding key %q: key sequence %d, sequence on the wire %d\n", k, tx.seq, wire)
			if tx.seq != wire {
				fmt.Println("REPLAY-CONFIRMED txseq24: the key's sequence number is not the 24-bit number on the wire; the response can never match")
			}
		}
	case strings.Contains(m.Obligation, "receiver#at{copy}.marker"):
		// a running server (real main loop and receiver) is sent one empty UDP datagram
		cfg := &factory.Config{Pfcp: &factory.Pfcp{Addr: "127.7.7.80", NodeID: "127.7.7.80", RetransTimeout: time.Hour, MaxRetrans: 1}}
		s := NewPfcpServer(cfg, forwarder.Empty{})
		var wg sync.WaitGroup
		s.Start(&wg)
		time.Sleep(200 * time.Millisecond)
		c, err := net.DialUDP("udp4", nil, &net.UDPAddr{IP: net.IPv4(127, 7, 7, 80), Port: 8805})
		if err != nil {
			t.Fatal(err)
		}
		defer c.Close()
		if _, err := c.Write([]byte{}); err != nil {
			t.Fatal(err)
		}
		time.Sleep(300 * time.Millisecond)
		stopped := false
		select {
		case _, ok := <-s.rcvCh:
			stopped = !ok
		default:
		}
		fmt.Printf("after one empty datagram: event loop has returned and closed its channels: %v\n", stopped)
		if stopped {
			fmt.Println("REPLAY-CONFIRMED marker: an empty datagram is queued as the receiver's close marker; the event loop stops serving (and the next datagram makes the receiver panic on the closed channel and the process exit)")
		}
	case strings.Contains(m.Obligation, "UpdatePDR#refadd"):
		// URR 1 exists, PDR 1 is created without URRs, then an Update PDR names URR 1: the URR is now referenced by
		// exactly one PDR, so its reference count must be 1 and removing that PDR must detach the last reference
		_, rn := verifNode()
		rn.driver = forwarder.Empty{}
		sess := rn.NewSess(1)
		if err := sess.CreateURR(ie.NewCreateURR(ie.NewURRID(1), ie.NewMeasurementMethod(0, 1, 0))); err != nil {
			t.Fatal(err)
		}
		if err := sess.CreatePDR(ie.NewCreatePDR(ie.NewPDRID(1))); err != nil {
			t.Fatal(err)
		}
		if _, err := sess.UpdatePDR(ie.NewUpdatePDR(ie.NewPDRID(1), ie.NewURRID(1))); err != nil {
			t.Fatal(err)
		}
		_, named := sess.PDRIDs[1].RelatedURRIDs[1]
		fmt.Printf("after Update PDR 1 {URR 1}: PDR 1 names URR 1: %v, refPdrNum(URR 1) = %d\n", named, sess.URRIDs[1].refPdrNum)
		if named && sess.URRIDs[1].refPdrNum != 1 {
			fmt.Println("REPLAY-CONFIRMED refadd: a URR added to a PDR by Update PDR is not counted as referenced; removing that PDR later yields no final usage report")
		}
	case strings.Contains(m.Obligation, "CreatePDR#loop{range(ies)}.preserve.cnt"):
		// URR 1 exists; one Create PDR IE names URR 1 twice: one PDR refers to the URR, so the count must be 1 and
		// removing that PDR must return the URR's final usage
		_, rn := verifNode()
		rn.driver = forwarder.Empty{}
		sess := rn.NewSess(1)
		if err := sess.CreateURR(ie.NewCreateURR(ie.NewURRID(1), ie.NewMeasurementMethod(0, 1, 0))); err != nil {
			t.Fatal(err)
		}
		if err := sess.CreatePDR(ie.NewCreatePDR(ie.NewPDRID(1), ie.NewURRID(1), ie.NewURRID(1))); err != nil {
			t.Fatal(err)
		}
		fmt.Printf("after Create PDR 1 {URR 1, URR 1}: PDRs naming URR 1: %d, refPdrNum(URR 1) = %d\n", len(sess.PDRIDs[1].RelatedURRIDs), sess.URRIDs[1].refPdrNum)
		if sess.URRIDs[1].refPdrNum != 1 {
			fmt.Println("REPLAY-CONFIRMED cnt: a URR id repeated inside one Create PDR is counted once per occurrence, not once per PDR; removing the only PDR that names the URR leaves the count above zero and no final usage report is returned")
		}
	case strings.Contains(m.Obligation, "CreatePDR#refagain"):
		// URR 1 exists; PDR 1 {URR 1} is created twice (the data plane rejects the second one, the bookkeeping does
		// not): one PDR names the URR, so the count must be 1
		_, rn := verifNode()
		rn.driver = forwarder.Empty{}
		sess := rn.NewSess(1)
		if err := sess.CreateURR(ie.NewCreateURR(ie.NewURRID(1), ie.NewMeasurementMethod(0, 1, 0))); err != nil {
			t.Fatal(err)
		}
		for k := 0; k < 2; k++ {
			if err := sess.CreatePDR(ie.NewCreatePDR(ie.NewPDRID(1), ie.NewURRID(1))); err != nil {
				t.Fatal(err)
			}
		}
		n := 0
		for _, p := range sess.PDRIDs {
			if _, ok := p.RelatedURRIDs[1]; ok {
				n++
			}
		}
		fmt.Printf("after Create PDR 1 {URR 1} twice: PDRs whose current list names URR 1: %d, refPdrNum(URR 1) = %d\n", n, sess.URRIDs[1].refPdrNum)
		usars, err := sess.RemovePDR(ie.NewRemovePDR(ie.NewPDRID(1)))
		fmt.Printf("Remove PDR 1: err=%v, final usage reports returned: %d, refPdrNum(URR 1) = %d\n", err, len(usars), sess.URRIDs[1].refPdrNum)
		if int(sess.URRIDs[1].refPdrNum) != 0 {
			fmt.Println("REPLAY-CONFIRMED refagain: a Create PDR for an id the session already holds replaces the PDR's URR list without releasing the references of the replaced list; no PDR names the URR any more but it still counts as referenced")
		}
	case strings.Contains(m.Obligation, "RemoveURR#ok") || strings.Contains(m.Obligation, "RemoveURR#unmarked"):
		// a data plane that refuses to remove URR 1 once; the same Session Modification Request also removes the only PDR
		// that refers to URR 1, which yields a usage report for it; then the session is deleted
		cfg := &factory.Config{Pfcp: &factory.Pfcp{Addr: "127.0.0.1", NodeID: "127.0.0.1", RetransTimeout: time.Hour, MaxRetrans: 1}}
		drv := &verifRefusingDriver{dp: map[string]bool{}, refuse: 1}
		s := NewPfcpServer(cfg, drv)
		rn := s.NewNode("smf1", &net.UDPAddr{IP: net.IPv4(10, 0, 0, 1), Port: 8805}, drv)
		s.rnodes["smf1"] = rn
		sess := rn.NewSess(7)
		if err := sess.CreateURR(ie.NewCreateURR(ie.NewURRID(1), ie.NewMeasurementMethod(0, 1, 0))); err != nil {
			t.Fatal(err)
		}
		if err := sess.CreatePDR(ie.NewCreatePDR(ie.NewPDRID(1), ie.NewURRID(1))); err != nil {
			t.Fatal(err)
		}
		mod := message.NewSessionModificationRequest(0, 0, sess.LocalID, 5, 0,
			ie.NewRemoveURR(ie.NewURRID(1)), ie.NewRemovePDR(ie.NewPDRID(1)))
		raw, _ := mod.Marshal()
		parsed, err := message.Parse(raw)
		if err != nil {
			t.Fatal(err)
		}
		peer := &net.UDPAddr{IP: net.IPv4(10, 0, 0, 1), Port: 8805}
		s.handleSessionModificationRequest(parsed.(*message.SessionModificationRequest), peer)
		_, known := sess.URRIDs[1]
		fmt.Printf("after the Modification Request (Remove URR 1 refused by the data plane, Remove PDR 1 accepted): URR 1 still in the data plane: %v, still in the session's bookkeeping: %v\n", drv.dp["URR/1"], known)
		del := message.NewSessionDeletionRequest(0, 0, sess.LocalID, 6, 0)
		raw, _ = del.Marshal()
		parsed, err = message.Parse(raw)
		if err != nil {
			t.Fatal(err)
		}
		s.handleSessionDeletionRequest(parsed.(*message.SessionDeletionRequest), peer)
		fmt.Printf("after Session Deletion: session live: %v, URR 1 still in the data plane: %v\n", s.lnode.sess[0] != nil, drv.dp["URR/1"])
		if drv.dp["URR/1"] && s.lnode.sess[0] == nil {
			fmt.Println("REPLAY-CONFIRMED removed: a URR whose removal the data plane refused is marked removed; a usage report for it in the same request makes the handler drop its bookkeeping, and the rule outlives the session")
		}
	case strings.Contains(m.Obligation, "UpdateNodeID#reg"):
		// two associated nodes with one session each; a modification request for a session of smfA names smfB as
		// the new node id (TS 29.244 7.5.4) and the handler calls UpdateNodeID(smfA's node, "smfB")
		cfg := &factory.Config{Pfcp: &factory.Pfcp{Addr: "127.0.0.1", NodeID: "127.0.0.1", RetransTimeout: time.Hour, MaxRetrans: 1}}
		s := NewPfcpServer(cfg, nil)
		a := s.NewNode("smfA", &net.UDPAddr{IP: net.IPv4(10, 0, 0, 1), Port: 8805}, nil)
		b := s.NewNode("smfB", &net.UDPAddr{IP: net.IPv4(10, 0, 0, 2), Port: 8805}, nil)
		s.rnodes["smfA"], s.rnodes["smfB"] = a, b
		sa, sb := a.NewSess(1), b.NewSess(2)
		s.UpdateNodeID(sa.rnode, "smfB")
		fmt.Printf("after UpdateNodeID(smfA -> smfB): rnodes[%q] is smfA's node: %v; session %d of the original smfB still live: %v\n",
			sb.rnode.ID, s.rnodes[sb.rnode.ID] == a, sb.LocalID, s.lnode.sess[sb.LocalID-1] == sb)
		if s.rnodes[sb.rnode.ID] != sb.rnode && s.lnode.sess[sb.LocalID-1] == sb {
			fmt.Println("REPLAY-CONFIRMED reg: a live session's node is no longer the node registered under its id; re-association of that id will not remove the session and will remove another node's sessions")
		}
	default:
		fmt.Println("no replay case for", m.Obligation)
	}
}

// verifRefusingDriver: a data plane that records the URRs it holds and refuses the first `refuse` Remove URR requests.
type verifRefusingDriver struct {
	forwarder.Empty
	dp     map[string]bool
	refuse int
}

func (d *verifRefusingDriver) CreateURR(seid uint64, req *ie.IE) error {
	id, _ := req.URRID()
	d.dp[fmt.Sprintf("URR/%d", id)] = true
	return nil
}

func (d *verifRefusingDriver) RemoveURR(seid uint64, req *ie.IE) ([]report.USAReport, error) {
	id, _ := req.URRID()
	if d.refuse > 0 {
		d.refuse--
		return nil, fmt.Errorf("data plane busy")
	}
	delete(d.dp, fmt.Sprintf("URR/%d", id))
	return []report.USAReport{{URRID: id}}, nil
}

func (d *verifRefusingDriver) QueryURR(seid uint64, urrid uint32) ([]report.USAReport, error) {
	return []report.USAReport{{URRID: urrid}}, nil
}
