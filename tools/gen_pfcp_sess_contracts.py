#!/usr/bin/env python3
# Generates the repetitive Sess.{Create,Update,Remove}{FAR,QER,BAR} contracts (appended to the hand-written part).
kinds = {"FAR": (2, "uint32", "0xffffffff"), "QER": (3, "uint32", "0xffffffff"), "BAR": (5, "uint8", "0xff")}
out = []
w = out.append
for k, (n, t, mx) in kinds.items():
    acc = f"req.{k}ID()"
    key = f"RuleKey(s.LocalID, {n}, uint64(val({acc})))"
    m = f"s.{k}IDs"
    w(f"//@ func (s *Sess) Create{k}(req *ie.IE) (err error)")
    w(f"//@   requires sessOK(s) && req != nil")
    w(f"//@   ensures [ok]    sessOK(s)")
    w(f"//@   ensures [rec]   ok({acc}) ==> val({acc}) in {m}")
    w(f"//@   ensures [mono]  forall id {t} :: id in old({m}) ==> id in {m}")
    w(f"//@   ensures [isol]  forall k RuleKey :: k.seid != s.LocalID ==> ((k in DP) == (k in old(DP)))")
    w(f"//@   ensures [sup]   forall k RuleKey :: k in old(DP) ==> k in DP")
    w(f"//@   ensures [noid]  !ok({acc}) ==> err != nil && DP == old(DP) && CREATED == old(CREATED)")
    w(f"//@   modifies {m}[_], DP, CREATED")
    w(f"//@   reveal sessOK")
    w(f"//@   serves C01 C05 C07")
    w(f"//@   at call Create{k}:")
    w(f"//@     assert [seid]     arg0 == s.LocalID && arg1 == req")
    w(f"//@     assert [recorded] val({acc}) in {m}")
    w("")
    w(f"//@ func (s *Sess) Update{k}(req *ie.IE) (err error)")
    w(f"//@   requires sessOK(s) && req != nil")
    w(f"//@   modifies nothing")
    w(f"//@   reveal sessOK")
    w(f"//@   serves C01 C05 C07")
    w(f"//@   at call Update{k}:")
    w(f"//@     assert [seid] arg0 == s.LocalID && arg1 == req")
    w("")
    w(f"//@ func (s *Sess) Remove{k}(req *ie.IE) (err error)")
    w(f"//@   requires sessOK(s) && req != nil")
    w(f"//@   ensures [ok]    sessOK(s)")
    w(f"//@   ensures [gone]  ok({acc}) && val({acc}) in old({m}) ==> !({key} in DP)")
    w(f"//@   ensures [sub]   forall k RuleKey :: k in DP ==> k in old(DP)")
    w(f"//@   ensures [isol]  forall k RuleKey :: k.seid != s.LocalID ==> ((k in DP) == (k in old(DP)))")
    w(f"//@   ensures [keys]  forall id {t} :: id in {m} ==> id in old({m})")
    w(f"//@   ensures [del]   err == nil ==> !(val({acc}) in {m})")
    w(f"//@   ensures [keep]  err != nil && ok({acc}) ==> (forall id {t} :: id in old({m}) ==> id in {m})")
    w(f"//@   modifies {m}[_], DP")
    w(f"//@   reveal sessOK")
    w(f"//@   serves C01 C05 C07")
    w(f"//@   at call Remove{k}:")
    w(f"//@     assert [seid] arg0 == s.LocalID && arg1 == req")
    w("")
print("\n".join(out))
