#!/bin/bash
# tools/vf.sh <function keys...> : verify functions uncached; print every non-proved obligation and the five slowest proved ones
cd /verif
GOVC_CACHE=off bin/govc func -timeout ${T:-20} "$@" 2>&1 | awk '
/^==/ {print; next}
/^   proved/ {print $3, $2, $4 > "/tmp/vf_slow.txt"; next}
{print substr($0,1,300)}'
sort -rn /tmp/vf_slow.txt | head -5; rm -f /tmp/vf_slow.txt
