#!/bin/sh
# mkmutant.sh <kind: mutants|mustpass> <id> <prop> <file relative to /repo> <sed expression> [description]
# creates /verif/selftest/<kind>/<prop>-<id>.patch by applying the sed expression to a scratch copy of the file.
set -e
kind=$1; id=$2; prop=$3; file=$4; expr=$5; desc=$6
tmp=$(mktemp -d)
mkdir -p "$tmp/a/$(dirname $file)" "$tmp/b/$(dirname $file)"
cp "/repo/$file" "$tmp/a/$file"
sed -E "$expr" "/repo/$file" > "$tmp/b/$file"
if cmp -s "$tmp/a/$file" "$tmp/b/$file"; then echo "mutant $id: sed expression changed nothing" >&2; rm -rf "$tmp"; exit 1; fi
out=/verif/selftest/$kind/$prop-$id.patch
{ echo "# $prop $id: $desc"; (cd "$tmp" && diff -u "a/$file" "b/$file" || true); } > "$out"
rm -rf "$tmp"
echo "wrote $out"
