#!/bin/bash
# tools/refac_run.sh <dir-with-patch.diff>... : apply a behaviour-preserving change to a scratch copy of /repo's working tree and
# run the quick check of every property served by a contract function of a changed file.  Any VIOLATION is a false alarm.
export GOFLAGS=-mod=mod GOPROXY=off GOSUMDB=off GOTOOLCHAIN=local
here=/verif
[ -f /tmp/govc_list_all.txt ] || "$here/bin/govc" list -all 2>/dev/null > /tmp/govc_list_all.txt
[ -f /tmp/govc_list.txt ] || "$here/bin/govc" list 2>/dev/null > /tmp/govc_list.txt
for d in "$@"; do
  d=$(cd "$d" && pwd); id=$(basename "$d")
  [ -f "$d/patch.diff" ] || { echo "SKIP $id"; continue; }
  props=$(python3 - "$d/patch.diff" <<'PY'
import re,sys
files=set(re.findall(r'^\+\+\+ b/(\S+)', open(sys.argv[1]).read(), re.M))
fnfile={}
for l in open('/tmp/govc_list_all.txt'):
    p=l.split()
    if len(p)>=3: fnfile[p[0]]=p[2].replace('/repo/','')
props=set()
for l in open('/tmp/govc_list.txt'):
    p=l.split()
    if len(p)<3 or p[1]!='extern=false': continue
    m=re.search(r'serves=\[(.*)\]', l)
    if not m: continue
    f=fnfile.get(p[0])
    if f in files: props.update(m.group(1).split())
print(' '.join(sorted(props)))
PY
)
  tmp=$(mktemp -d "${TMPDIR:-/tmp}/govc-refac-XXXXXX")
  rsync -a --exclude .git /repo/ "$tmp/repo/"
  if ! (cd "$tmp/repo" && patch -s -p1 < "$d/patch.diff"); then echo "ERROR $id: patch does not apply"; rm -rf "$tmp"; continue; fi
  if ! (cd "$tmp/repo" && go build ./... 2>"$tmp/build.log"); then echo "ERROR $id: does not compile"; rm -rf "$tmp"; continue; fi
  res=""
  for p in $props; do
    out=$("$here/bin/govc" check -repo "$tmp/repo" -prop "$p" -tier quick -out "$tmp/ev.json" -known "$here/known_findings.json" -replays "$tmp/replays" -verif "$here" 2>&1)
    rc=$?
    if [ $rc -ne 0 ]; then
      first=$(echo "$out" | grep '^VIOLATION' | head -2 | sed 's/.*obligation=//' | tr '\n' ';')
      res="$res ALARM-$p($first)"
    fi
  done
  [ -z "$res" ] && res=" quiet"
  echo "$id [$props]:$res"
  rm -rf "$tmp"
done
