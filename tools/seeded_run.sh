#!/bin/bash
# tools/seeded_run.sh <seeded-dir>... : apply each seeded change to a scratch copy of /repo's working tree, run the quick check of
# its property there, report caught / MISSED.  (Scratch copy under $TMPDIR, removed afterwards.)
export GOFLAGS=-mod=mod GOPROXY=off GOSUMDB=off GOTOOLCHAIN=local
here=/verif
for d in "$@"; do
  d=$(cd "$d" && pwd)
  id=$(basename "$d"); prop=${id%%-*}
  [ -f "$d/patch.diff" ] || { echo "SKIP $id: no patch.diff"; continue; }
  tmp=$(mktemp -d "${TMPDIR:-/tmp}/govc-seed-XXXXXX")
  rsync -a --exclude .git /repo/ "$tmp/repo/"
  if ! (cd "$tmp/repo" && patch -s -p1 < "$d/patch.diff"); then echo "ERROR $id: patch does not apply"; rm -rf "$tmp"; continue; fi
  if ! (cd "$tmp/repo" && go build ./... 2>"$tmp/build.log"); then echo "ERROR $id: does not compile"; rm -rf "$tmp"; continue; fi
  props="$prop ${EXTRA_PROPS}"
  res=""
  for p in $props; do
    out=$("$here/bin/govc" check -repo "$tmp/repo" -prop "$p" -tier quick -out "$tmp/ev.json" -known "$here/known_findings.json" -replays "$tmp/replays" -verif "$here" 2>&1)
    rc=$?
    n=$(echo "$out" | grep -c '^VIOLATION')
    first=$(echo "$out" | grep '^VIOLATION' | head -3 | sed 's/.*obligation=//' | tr '\n' ';')
    if [ $rc -eq 1 ] && [ $n -gt 0 ]; then res="$res caught-by-$p($n: $first)"; else res="$res missed-by-$p(rc=$rc)"; fi
  done
  echo "$id:$res"
  rm -rf "$tmp"
done
