#!/usr/bin/env python3
"""Source of the multi-line must-fail / must-pass corpus: (kind, id, property, file, old text, new text, description).
Run to (re)generate /verif/selftest/<kind>/<prop>-<id>.patch against /repo's current tree."""
import subprocess, os, tempfile, shutil, sys
M = []
def mut(kind, mid, prop, file, old, new, desc):
    M.append((kind, mid, prop, file, old, new, desc))

mut("mutants", "M03", "C01", "internal/pfcp/node.go",
"""	for id := range s.BARIDs {
		i := ie.NewRemoveBAR(ie.NewBARID(id))
		err := s.RemoveBAR(i)
		if err != nil {
			s.log.Errorf("Remove BAR err: %+v", err)
		}
	}
""", "", "Sess.Close no longer removes BARs")
mut("mustpass", "P03b", "C01", "internal/pfcp/node.go",
"""	err = s.rnode.driver.RemoveQER(s.LocalID, req)
	if err != nil {
		return err
	}

	delete(s.QERIDs, id)""",
"""	delete(s.QERIDs, id)
	err = s.rnode.driver.RemoveQER(s.LocalID, req)
	if err != nil {
		return err
	}
""", "RemoveQER forgets the id before the driver removed the rule (no violation under the fault model: removes withdraw) - expected quiet")

mut("mutants", "M05", "C01", "internal/pfcp/node.go",
"""	for id := range n.sess {
		n.DeleteSess(id)
	}
	n.sess = make(map[uint64]struct{})""",
"""	n.sess = make(map[uint64]struct{})""", "RemoteNode.Reset forgets its sessions without closing them")
mut("mutants", "M14", "C04", "internal/pfcp/node.go",
"""	if lSeid > uint64(len(n.sess)) {
		return nil, errors.Errorf("Sess: sess not found (lSeid:%#x)", lSeid)
	}""",
"""	if lSeid > uint64(len(n.sess))+1 {
		return nil, errors.Errorf("Sess: sess not found (lSeid:%#x)", lSeid)
	}""", "LocalNode.Sess: off-by-one in the table bound")
mut("mutants", "M15", "C04", "internal/pfcp/node.go",
"""		s.LocalID = n.free[last]
		n.free = n.free[:last]""",
"""		s.LocalID = n.free[0]
		n.free = n.free[:last]""", "NewSess reuses the first free id but drops the last one from the free list")
mut("mutants", "M16", "C04", "internal/pfcp/node.go",
"""	n.sess[i] = nil
	n.free = append(n.free, lSeid)""",
"""	n.free = append(n.free, lSeid)""", "DeleteSess releases the SEID without clearing the slot")
mut("mutants", "M19", "C05", "internal/pfcp/node.go",
"""	_, ok := n.sess[lSeid]
	if !ok {
		return nil
	}
	delete(n.sess, lSeid)
	usars, err := n.local.DeleteSess(lSeid)""",
"""	delete(n.sess, lSeid)
	usars, err := n.local.DeleteSess(lSeid)""", "RemoteNode.DeleteSess deletes sessions it does not own")
mut("mutants", "M20", "C05", "internal/pfcp/node.go",
"""		if s.RemoteID == rSeid && s.rnode.addr.String() == addr.String() {""",
"""		if s.RemoteID == rSeid {""", "RemoteSess ignores the peer address")
mut("mutants", "M35", "C11", "internal/pfcp/node.go",
"""	seq := info.SEQN
	info.SEQN++""",
"""	seq := info.SEQN
	info.SEQN += 2""", "URRSeq skips a sequence number")
mut("mutants", "M36", "C12", "internal/pfcp/node.go",
"""		urrInfo.refPdrNum--
		if urrInfo.refPdrNum == 0 {""",
"""		if urrInfo.refPdrNum == 1 {""", "diassociateURR never decrements the reference count")
mut("mutants", "M37", "C12", "internal/pfcp/node.go",
"""	// indicates usage report being reported for a URR due to the removal of the URR
	for i := range usars {
		usars[i].USARTrigger.Flags |= report.USAR_TRIG_TERMR
	}""",
"""	// indicates usage report being reported for a URR due to the removal of the URR
	for i := range usars {
		usars[i].USARTrigger.Flags |= report.USAR_TRIG_IMMER
	}""", "RemoveURR flags the final report IMMER instead of TERMR")
mut("mutants", "M38", "C13", "internal/pfcp/node.go",
"""	default:
		s.log.Debugf("q[%d](len:%d) is full, drop it", pdrid, len(q))
	}""",
"""	default:
		<-q
		q <- pkt
	}""", "Push displaces the oldest packet when the queue is full")

if __name__ == "__main__":
    for kind, mid, prop, file, old, new, desc in M:
        src = open("/repo/" + file).read()
        if src.count(old) != 1:
            print(f"{prop}-{mid}: old text occurs {src.count(old)} times", file=sys.stderr); continue
        d = tempfile.mkdtemp()
        for side, text in (("a", src), ("b", src.replace(old, new))):
            os.makedirs(os.path.join(d, side, os.path.dirname(file)))
            open(os.path.join(d, side, file), "w").write(text)
        p = subprocess.run(["diff", "-u", "a/" + file, "b/" + file], cwd=d, capture_output=True, text=True).stdout
        open(f"/verif/selftest/{kind}/{prop}-{mid}.patch", "w").write(f"# {prop} {mid}: {desc}\n" + p)
        shutil.rmtree(d)
        print(f"wrote {kind}/{prop}-{mid}.patch")
