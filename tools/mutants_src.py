#!/usr/bin/env python3
"""Source of the multi-line must-fail / must-pass corpus: (kind, id, property, file, old text, new text, description).
Run to (re)generate /verif/selftest/<kind>/<prop>-<id>.patch against /repo's current tree."""
import subprocess, os, tempfile, shutil, sys
M = []
def mut(kind, mid, prop, file, old, new, desc):
    M.append((kind, mid, prop, file, old, new, desc))

mut("mutants", "M03", "C01", "internal/pfcp/node.go",
"""	for id := range s.BARIDs {
		i := ie.NewRemoveBAR(ie.NewBARID(id))
		err := s.RemoveBAR(i)
		if err != nil {
			s.log.Errorf("Remove BAR err: %+v", err)
		}
	}
""", "", "Sess.Close no longer removes BARs")
mut("mustpass", "P03b", "C01", "internal/pfcp/node.go",
"""	err = s.rnode.driver.RemoveQER(s.LocalID, req)
	if err != nil {
		return err
	}

	delete(s.QERIDs, id)""",
"""	delete(s.QERIDs, id)
	err = s.rnode.driver.RemoveQER(s.LocalID, req)
	if err != nil {
		return err
	}
""", "RemoveQER forgets the id before the driver removed the rule (no violation under the fault model: removes withdraw) - expected quiet")

if __name__ == "__main__":
    for kind, mid, prop, file, old, new, desc in M:
        src = open("/repo/" + file).read()
        if src.count(old) != 1:
            print(f"{prop}-{mid}: old text occurs {src.count(old)} times", file=sys.stderr); continue
        d = tempfile.mkdtemp()
        for side, text in (("a", src), ("b", src.replace(old, new))):
            os.makedirs(os.path.join(d, side, os.path.dirname(file)))
            open(os.path.join(d, side, file), "w").write(text)
        p = subprocess.run(["diff", "-u", "a/" + file, "b/" + file], cwd=d, capture_output=True, text=True).stdout
        open(f"/verif/selftest/{kind}/{prop}-{mid}.patch", "w").write(f"# {prop} {mid}: {desc}\n" + p)
        shutil.rmtree(d)
        print(f"wrote {kind}/{prop}-{mid}.patch")
