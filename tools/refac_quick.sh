#!/bin/bash
# tools/refac_quick.sh <dir-with-patch.diff>... : like refac_run.sh but verifies only the contract functions whose source file the
# change touches (bin/govc func), which is what can change; prints every obligation that is not proved.
export GOFLAGS=-mod=mod GOPROXY=off GOSUMDB=off GOTOOLCHAIN=local
here=/verif
[ -f /tmp/govc_list_all.txt ] || "$here/bin/govc" list -all 2>/dev/null > /tmp/govc_list_all.txt
[ -f /tmp/govc_list.txt ] || "$here/bin/govc" list 2>/dev/null > /tmp/govc_list.txt
for d in "$@"; do
  d=$(cd "$d" && pwd); id=$(basename "$d")
  [ -f "$d/patch.diff" ] || { echo "SKIP $id"; continue; }
  fns=$(python3 - "$d/patch.diff" <<'PY'
import re,sys
files=set(re.findall(r'^\+\+\+ b/(\S+)', open(sys.argv[1]).read(), re.M))
fnfile={}
for l in open('/tmp/govc_list_all.txt'):
    p=l.split()
    if len(p)>=3: fnfile[p[0]]=p[2].replace('/repo/','')
out=[]
for l in open('/tmp/govc_list.txt'):
    p=l.split()
    if len(p)<3 or p[1]!='extern=false': continue
    if fnfile.get(p[0]) in files: out.append(p[0])
print(' '.join(out))
PY
)
  tmp=$(mktemp -d "${TMPDIR:-/tmp}/govc-refac-XXXXXX")
  rsync -a --exclude .git "${REFAC_BASE:-/repo}/" "$tmp/repo/"
  if ! (cd "$tmp/repo" && patch -s -p1 < "$d/patch.diff"); then echo "ERROR $id: patch does not apply"; rm -rf "$tmp"; continue; fi
  if ! (cd "$tmp/repo" && go build ./... 2>"$tmp/build.log"); then echo "ERROR $id: does not compile"; rm -rf "$tmp"; continue; fi
  out=$("${GOVC:-$here/bin/govc}" func -repo "$tmp/repo" -timeout 20 $fns 2>&1 | grep -v "^   proved" | grep -v "^==")
  bad=$(echo "$out" | grep -v -F -e "Gtp5g.Close#" -e "UpdateNodeID#reg.2" -e "UpdateURR#perio" -e "CreatePDR#refagain" | grep -v "^$" | cut -c1-220)
  if [ -z "$bad" ]; then echo "$id: quiet ($(echo $fns | wc -w) functions)"; else echo "$id: ALARM"; echo "$bad" | head -6 | sed 's/^/      /'; fi
  rm -rf "$tmp"
done
