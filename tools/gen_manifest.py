#!/usr/bin/env python3
"""Regenerates /verif/MANIFEST.json.  Claimed properties and their level notes are kept here."""
import json, subprocess
TECH = "contract-based deductive verification: weakest-precondition VCs generated from go/ssa of the working tree, discharged by z3/cvc5"
COMMON = " go/ssa lowering, the govc SSA->SMT translator and the solvers are trusted; lengths < 2^47; partial correctness only (no termination/timing)."
claimed = {
 "C14": dict(
   text="Deductive proof, for all inputs, that the real Message.Len/Encode and PDUSessionContainer.Len/Encode meet byte-exact contracts transcribed from TS 29.281 5.1/5.2 and TS 38.415 5.5.2: every obligation (postcondition conjuncts, loop invariants, frame, no-panic) is discharged by an SMT solver over exact bit-vector semantics, for all QFI/PDU-type values allowed by the precondition, all 32-bit TEIDs and every payload length up to 65000.",
   note="Entry assumptions: the emitted header form (flags 0x34, at most one PDU Session Container with QFI<=63, PDU type<=15), output buffer of exactly Len() bytes in a backing array different from the payload's. Gtp5g.WritePacket's construction of the message is not under contract yet." + COMMON),
 "C19": dict(
   text="Deductive proof over all 2^32 / 2^16 / 2^8 flag words and all byte values: each of the 53 accessors returns exactly the TS 29.244 bit (tables 8.2.19, 8.2.41, 8.2.26 transcribed as (octet, bit) pairs in the contract generator, not taken from the code's constants), Unmarshal widens 2/3-octet (1/2-octet) input little-end first and errs iff too short, IE() hands the three octets to the go-pfcp constructor in order, SetReportingTrigger maps each single cause to the same-named usage-report bit and changes nothing otherwise, SetFlags sets exactly the volume (and packet) flag bits.",
   note="go-pfcp constructors ie.NewReportingTriggers / ie.NewUsageReportTrigger are the extern boundary (their arguments are specified, their encoding is not verified); REEMR has no same-named usage-report trigger and is specified as 'no change'; inputs longer than the permitted IE lengths are outside the claim." + COMMON),
 "C01": dict(
   text="Deductive proof over a ghost model of the data plane (sets DP / CREATED of (seid, kind, id) keys that only the forwarder.Driver interface contracts may change): every Sess rule method (Create/Update/Remove of PDR, FAR, QER, URR, BAR), Sess.Close, LocalNode/RemoteNode.DeleteSess, RemoteNode.Reset and the Session Deletion and Association Setup handlers preserve 'every key in DP belongs to a live session and is recorded in that session's own id maps', call Update/Remove/Query only for ids the session recorded, and withdraw every key of an ending session (Close calls Remove for each recorded id whatever earlier calls returned). Proved for all inputs, map contents and numbers of sessions.",
   note="Proved up to the Driver interface: Gtp5g's translation of these calls to netlink is a separate property (C02/C03). Session Establishment/Modification and Session Report Response handlers are not under contract yet, so 'requested by a Create IE' is proved at the Sess method level (the id recorded and installed is the one decoded from the IE passed in), and the SEID-0 report-response path is not covered. go-pfcp IE accessors are assumed deterministic (A-IEPURE)." + COMMON),
 "C04": dict(
   text="Deductive proof, for every 64-bit SEID value and every table size, of LocalNode.NewSess/Sess/DeleteSess/RemoteSess and their RemoteNode wrappers against a representation invariant (slot i holds the session with LocalID i+1 or nil; the free list holds exactly distinct released slot numbers): NewSess returns a non-zero SEID whose slot was empty (so no live session holds it) and is re-issued only from the free list, i.e. after DeleteSess removed the previous holder; Sess/DeleteSess resolve a SEID to exactly sess[seid-1] and return an error without any heap or data-plane effect for 0, out-of-range (including values whose int conversion wraps) and released SEIDs; the Session Deletion handler answers cause 'session context not found' with SEID 0 in exactly that case.",
   note="The quick check found and the repository now carries two fixes here (int(lSeid)-1 wrap-around for SEIDs >= 2^63; nil slot dereference in RemoteSess). Establishment/Modification handlers not under contract yet." + COMMON),
 "C05": dict(
   text="Deductive frame proofs: each Sess rule method, Close, DeleteSess and the Session Deletion handler carry a machine-checked modifies clause naming only the addressed session's maps, queues and URR records plus the ghost data plane, an 'isol' postcondition (keys of every other SEID are in DP after iff before) and a 'frameok' postcondition (every other session's well-formedness predicate is preserved); every Driver call is required at the call site to carry s.LocalID. RemoteNode.Reset and the Association Setup handler are proved to remove exactly the sessions registered under the re-associating node and to leave every other live slot identical. Separation between sessions is derived from ghost ownership of their maps fixed at allocation in NewSess.",
   note="The Session Report Response SEID-0 path and UpdateNodeID are not under contract yet and are outside this claim. Buffered packets are covered through the queue maps of Sess (frame over chans(s.q))." + COMMON),
}
props = [json.loads(l) for l in open('/verif/properties.jsonl')]
checks, na = [], []
NA = {
 "C18": "liveness / absence of wait-for cycles between goroutines over bounded channels: partial-correctness contracts have no notion of progress (DESIGN.md section 5, C18)",
}
for p in props:
    pid = p['id']
    if pid in claimed:
        c = claimed[pid]
        checks.append({
          "property_id": pid, "quick_cmd": f"./check {pid} quick", "thorough_cmd": f"./check {pid} thorough",
          "evidence_file": f"/verif/evidence/{pid}.json", "replay_cmd_template": "./check --replay {path}", "engine": "govc",
          "level_claimed": {"category": c.get('category', 'proof'), "text": c['text'], "design_ref": f"DESIGN.md section 5 ({pid})"},
          "level_note": c['note'], "technique": c.get('tech', TECH)})
    else:
        na.append({"property_id": pid, "reason": NA.get(pid, "not claimed yet: contracts for this property are still being brought under the verifier (DESIGN.md section 8); the technique applies, nothing is asserted about this property until its check is registered")})
hooks = subprocess.run(["git", "-C", "/repo", "log", "--format=%h %s"], capture_output=True, text=True).stdout.splitlines()
hook_commits = [l.split()[0] for l in hooks if l.split(' ', 1)[1].startswith("verif:")]
m = {"version": 1,
 "setup_cmd": "cd /verif/engine && GOFLAGS=-mod=mod GOPROXY=off GOSUMDB=off GOTOOLCHAIN=local go build -o /verif/bin/govc .",
 "hooks": {"guard": "verif",
           "enable": "contracts are comment-only files internal/<pkg>/zz_contracts_verif.go starting with //go:build verif; the engine loads /repo with -tags=verif and reads their //@ lines (no executable code is added under the tag)",
           "baseline_off_cmd": "cd /repo && GOFLAGS=-mod=mod GOPROXY=off GOSUMDB=off go test -vet=off -count=1 ./...",
           "source_commits": hook_commits[::-1], "add_only": True},
 "engines": [{"name": "govc", "path": "/verif/engine", "serves_properties": sorted(claimed),
              "kind_free_text": "VC generator over go/ssa (block-merged weakest preconditions, exact bit-vectors, component heap) + SMT racing (z3 5.1, cvc5 1.0, z3 4.8)"}],
 "checks": checks, "not_applicable": na,
 "notes": "Contracts live in /repo behind build tag verif; assumed extern contracts in /verif/contracts/extern; known findings in /verif/known_findings.json; must-fail/must-pass corpus in /verif/selftest (run selftest/run.sh)."}
json.dump(m, open('/verif/MANIFEST.json', 'w'), indent=1)
print("claimed:", sorted(claimed))
