#!/usr/bin/env python3
"""Writes a `//@   locals ...` clause (the function's named locals in declaration order, with types) under every function
contract of the repository's contract files, from `bin/govc locals`.  Re-run after changing code under contract on purpose;
the engine uses the table to recognise renamed locals (DESIGN.md 9.3)."""
import re, subprocess, sys, os
repo = sys.argv[1] if len(sys.argv) > 1 else '/repo'
govc = os.environ.get('GOVC', '/verif/bin/govc')
out = subprocess.run([govc, 'locals', '-repo', repo], capture_output=True, text=True, env=dict(os.environ, GOVC_EXTERN='/verif/contracts/extern')).stdout
table = {}
for l in out.splitlines():
    if '\t' in l:
        k, v = l.split('\t', 1)
        table[k] = v
files = []
for root, _, fs in os.walk(repo):
    if '.git' in root:
        continue
    for f in fs:
        if f == 'zz_contracts_verif.go':
            files.append(os.path.join(root, f))
n = 0
for path in sorted(files):
    lines = open(path).read().split('\n')
    pkg = None
    for l in lines:
        m = re.match(r'^package (\w+)', l)
        if m:
            pkg = m.group(1)
    res = []
    for l in lines:
        if re.match(r'^//@\s+locals ', l):
            continue  # regenerated
        res.append(l)
        m = re.match(r'^//@ func (?:\((\w+) (\*?)([\w.]+)\) )?(\w+)\(', l)
        if m:
            recv, name = m.group(3), m.group(4)
            if recv:
                recv = recv.split('.')[-1]
                key = '%s.%s.%s' % (pkg, recv, name)
            else:
                key = '%s.%s' % (pkg, name)
            if key in table:
                res.append('//@   locals ' + table[key])
                n += 1
    open(path, 'w').write('\n'.join(res))
print('locals clauses written:', n)
