#!/bin/bash
# selftest/run.sh [property]  — must-fail mutants must raise VIOLATION for their property, must-pass edits must not.
# Each patch is applied to a scratch copy of /repo's working tree under $TMPDIR, checked, and the copy removed.
export GOFLAGS=-mod=mod GOPROXY=off GOSUMDB=off GOTOOLCHAIN=local
here=$(cd "$(dirname "$0")/.." && pwd)
filter=$1
fail=0
run_one() {
  kind=$1; patchf=$2
  base=$(basename "$patchf" .patch); prop=${base%%-*}
  if [ "$(basename "$patchf")" = patch.diff ]; then base=seeded-$(basename "$(dirname "$patchf")"); prop=$(basename "$(dirname "$patchf")"); prop=${prop%%-*}; fi
  tmp=$(mktemp -d "${TMPDIR:-/tmp}/govc-mut-XXXXXX")
  rsync -a --exclude .git /repo/ "$tmp/repo/"
  if ! (cd "$tmp/repo" && patch -s -p1 < "$patchf" >/dev/null 2>&1); then
    rm -rf "$tmp"
    case "$base" in seeded-*) echo "skipped  $base: the change no longer applies to the current tree"; return 0;; esac
    echo "SELFTEST-ERROR $base: patch does not apply"; return 1
  fi
  if ! (cd "$tmp/repo" && go build ./... 2>"$tmp/build.log"); then echo "SELFTEST-ERROR $base: mutant does not compile"; head -3 "$tmp/build.log"; rm -rf "$tmp"; return 1; fi
  out=$("$here/bin/govc" check -repo "$tmp/repo" -prop "$prop" -tier quick -out "$tmp/ev.json" -known "$here/known_findings.json" -replays "$tmp/replays" -verif "$here" 2>&1)
  rc=$?
  rm -rf "$tmp"
  if [ "$kind" = mutants ]; then
    if [ $rc -eq 1 ] && echo "$out" | grep -q "^VIOLATION property=$prop"; then
      echo "caught   $base: $(echo "$out" | grep -c '^VIOLATION') violation line(s), first: $(echo "$out" | grep '^VIOLATION' | head -1 | sed 's/.*obligation=//')"
    else
      echo "MISSED   $base (exit $rc)"; return 1
    fi
  else
    if [ $rc -eq 0 ]; then echo "quiet    $base"; else echo "FALSE-ALARM $base (exit $rc): $(echo "$out" | grep '^VIOLATION' | head -2)"; return 1; fi
  fi
}
jobs=${SELFTEST_JOBS:-3}
tmpout=$(mktemp -d "${TMPDIR:-/tmp}/govc-selftest-XXXXXX")
n=0
for kind in mutants mustpass; do
  for p in "$here"/selftest/$kind/*.patch; do
    [ -e "$p" ] || continue
    case "$(basename $p)" in "$filter"*) ;; *) [ -n "$filter" ] && continue;; esac
    n=$((n+1))
    ( run_one $kind "$p" > "$tmpout/$n.out" 2>&1; echo $? > "$tmpout/$n.rc" ) &
    while [ "$(jobs -r | wc -l)" -ge "$jobs" ]; do sleep 1; done
  done
done
# changes seeded by independent agents (seeded/<id>/patch.diff) are must-fail cases too
for p in "$here"/seeded/*/patch.diff; do
  [ -e "$p" ] || continue
  id=$(basename "$(dirname "$p")")
  case "$id" in "$filter"*) ;; *) [ -n "$filter" ] && continue;; esac
  # a seeded change that stopped being a violation after a repair of the tree is kept for the record, not as a must-fail case
  if grep -q '"obsolete"' "$(dirname "$p")/meta.json" 2>/dev/null; then echo "skipped  seeded-$id: no longer a violation on the repaired tree (meta.json: obsolete)" > "$tmpout/o$id.out"; continue; fi
  n=$((n+1))
  ( run_one mutants "$p" > "$tmpout/$n.out" 2>&1; echo $? > "$tmpout/$n.rc" ) &
  while [ "$(jobs -r | wc -l)" -ge "$jobs" ]; do sleep 1; done
done
wait
for f in "$tmpout"/*.out; do [ -e "$f" ] && cat "$f"; done
for f in "$tmpout"/*.rc; do [ -e "$f" ] && [ "$(cat $f)" != 0 ] && fail=1; done
rm -rf "$tmpout"
exit $fail
